use vstd::prelude::*;
use std::cmp::Ordering;
use vstd::std_specs::cmp::*;
verus! {
#[derive(Clone, Copy, PartialEq, Eq, PartialOrd, Ord)]
pub struct StateIdx(usize);

impl StateIdx {
    pub closed spec fn ix(self) -> int { self.0 as int }
    fn map<F>(&self, f: F) -> (r: StateIdx)
    where
        F: Fn(usize) -> usize,
        requires f.requires((self.0,)),
        ensures f.ensures((self.0,), r.0),
    {
        StateIdx(f(self.0))
    }
}

pub closed spec fn sorted_idx(s: Seq<StateIdx>) -> bool { forall|i: int, j: int| 0 <= i < j < s.len() ==> s[i].0 < s[j].0 }
pub closed spec fn count_below(s: Seq<StateIdx>, x: StateIdx) -> int decreases s.len() {
    if s.len() == 0 { 0 } else { count_below(s.drop_last(), x) + if s.last().0 < x.0 { 1int } else { 0int } }
}

// assumed spec of the std function (trusted): stated on the field order, which is what derive(Ord) on a newtype gives
pub assume_specification<T: Ord> [<[T]>::binary_search] (s: &[T], x: &T) -> (r: Result<usize, usize>)
    ensures T::obeys_cmp_spec() ==> (forall|i: int, j: int| 0 <= i < j < s@.len() ==> s@[i].cmp_spec(&s@[j]) == Ordering::Less) ==> match r {
        Ok(i) => i < s@.len() && s@[i as int].cmp_spec(x) == Ordering::Equal && (forall|j: int| 0 <= j < i ==> (#[trigger] s@[j]).cmp_spec(x) == Ordering::Less) && (forall|j: int| i < j < s@.len() ==> (#[trigger] s@[j]).cmp_spec(x) == Ordering::Greater),
        Err(i) => i <= s@.len() && (forall|j: int| 0 <= j < i ==> (#[trigger] s@[j]).cmp_spec(x) == Ordering::Less) && (forall|j: int| i <= j < s@.len() ==> (#[trigger] s@[j]).cmp_spec(x) == Ordering::Greater),
    };

// trusted: derive(PartialOrd, Ord) on a one-field tuple struct orders by the field
broadcast axiom fn axiom_stateidx_ord(a: StateIdx, b: StateIdx)
    ensures #[trigger] a.cmp_spec(&b) == (if a.0 < b.0 { Ordering::Less } else if a.0 == b.0 { Ordering::Equal } else { Ordering::Greater });
pub broadcast axiom fn axiom_stateidx_obeys()
    ensures #[trigger] StateIdx::obeys_cmp_spec();

proof fn lemma_sorted_ge_index(s: Seq<StateIdx>, j: int)
    requires sorted_idx(s), 0 <= j < s.len()
    ensures s[j].0 >= j
    decreases j
{
    if j > 0 { lemma_sorted_ge_index(s, j - 1); assert(s[j - 1].0 < s[j].0); }
}
proof fn lemma_count_below(s: Seq<StateIdx>, x: StateIdx, idx: int)
    requires 0 <= idx <= s.len(),
        forall|j: int| 0 <= j < idx ==> (#[trigger] s[j]).0 < x.0,
        forall|j: int| idx <= j < s.len() ==> (#[trigger] s[j]).0 >= x.0,
    ensures count_below(s, x) == idx
    decreases s.len()
{
    if s.len() > 0 {
        let t = s.drop_last();
        if idx == s.len() { lemma_count_below(t, x, idx - 1); assert(s.last() == s[s.len() - 1]); }
        else { lemma_count_below(t, x, idx); assert(s.last() == s[s.len() - 1]); }
    }
}

pub struct CgCtx { inlined_states: Vec<StateIdx> }
impl CgCtx {
    pub closed spec fn inl(&self) -> Seq<StateIdx> { self.inlined_states@ }
    pub fn renumber_state(&self, state: StateIdx) -> (r: StateIdx)
        requires sorted_idx(self.inl()),
        ensures r.ix() == state.ix() - count_below(self.inl(), state),
    {
        broadcast use axiom_stateidx_ord;
        broadcast use axiom_stateidx_obeys;
        let ghost s = self.inlined_states@;
        proof {
            assert forall|i: int, j: int| 0 <= i < j < s.len() implies s[i].cmp_spec(&s[j]) == Ordering::Less by { }
        }
        match self.inlined_states.binary_search(&state) {
            Ok(idx) | Err(idx) => {
                proof {
                    lemma_count_below(s, state, idx as int);
                    if idx > 0 { lemma_sorted_ge_index(s, idx - 1); }
                }
                state.map(|state_idx: usize| -> (r: usize) requires state_idx >= idx, ensures r == state_idx - idx, { state_idx - idx })
            }
        }
    }
}
}
fn main(){}
