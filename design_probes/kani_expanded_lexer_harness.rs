use lexgen::lexer;

#[derive(Debug, PartialEq, Eq, Clone, Copy)]
pub enum Tok { A, B, C }

lexer! {
    pub Lx -> Tok;

    'a'+ 'b' = Tok::A,
    'a' = Tok::B,
    ['b' 'c'] = Tok::C,
}

#[derive(Clone)]
pub struct ArrIter { pub a: [char; 4], pub n: usize, pub i: usize }
impl Iterator for ArrIter { type Item = char; fn next(&mut self) -> Option<char> { if self.i < self.n { let c = self.a[self.i]; self.i += 1; Some(c) } else { None } } }

#[cfg(kani)]
#[kani::proof]
#[kani::unwind(12)]
fn check_first_token() {
    let n: usize = kani::any(); kani::assume(n <= 4);
    let a: [char; 4] = kani::any();
    let it = ArrIter { a, n, i: 0 };
    let mut lx = Lx::new_from_iter(it);
    let r = lx.next();
    // reference for first token
    if n == 0 { assert!(r.is_none()); }
    else {
        // count leading a's
        let mut k = 0; while k < n && a[k] == 'a' { k += 1; }
        if k > 0 && k < n && a[k] == 'b' {
            match r { Some(Ok((s, Tok::A, e))) => { assert!(s.byte_idx == 0 && e.byte_idx == k + 1); } _ => assert!(false) }
        } else if k > 0 {
            match r { Some(Ok((s, Tok::B, e))) => { assert!(s.byte_idx == 0 && e.byte_idx == 1); } _ => assert!(false) }
        } else if a[0] == 'b' || a[0] == 'c' {
            match r { Some(Ok((_, Tok::C, e))) => { assert!(e.byte_idx == 1); } _ => assert!(false) }
        } else {
            match r { Some(Err(e)) => { assert!(e.location.byte_idx == 0); } _ => assert!(false) }
        }
    }
}

#[cfg(kani)]
#[kani::proof]
#[kani::unwind(12)]
fn check_wrong() {
    let n: usize = kani::any(); kani::assume(n <= 4);
    let a: [char; 4] = kani::any();
    let it = ArrIter { a, n, i: 0 };
    let mut lx = Lx::new_from_iter(it);
    let r = lx.next();
    kani::cover!(matches!(r, Some(Ok((_, Tok::A, _)))), "tokA reachable");
    if n >= 2 && a[0] == 'a' { assert!(!matches!(r, Some(Ok((_, Tok::A, _))))); }
}
