use vstd::prelude::*;
use std::collections::HashMap;
use vstd::std_specs::iter::IteratorSpec;
verus! {
fn c1(m: &HashMap<u64, u32>) { let vi = m.values(); assert(forall|v: u32| m@.values().contains(v) ==> vi.remaining().contains(&v)); }
fn c2(m: &HashMap<u64, u32>) { let vi = m.values(); assert(forall|v: u32| m@.contains_value(v) ==> vi.remaining().contains(&v)); }
fn c3(m: &HashMap<u64, u32>) { let vi = m.values(); assert(vi.remaining().to_set().finite()); }
fn c4(m: &HashMap<u64, u32>) { let vi = m.values(); let ghost s = vi.remaining(); assert(exists|ks: Seq<u64>| ks.len() == s.len() && ks.no_duplicates() && (forall|i: int| 0 <= i < ks.len() ==> m@.contains_key(#[trigger] ks[i]) && *s[i] == m@[ks[i]])); }
fn c5(m: &HashMap<u64, u32>) { let vi = m.values(); let ki = m.keys(); assert(vi.remaining().len() == ki.remaining().len()); assert(forall|i: int| 0 <= i < ki.remaining().len() ==> *vi.remaining()[i] == m@[*#[trigger] ki.remaining()[i]]); }
}
fn main(){}
