use lexgen::lexer;

lexer! {
    pub Lx -> u8;
    $$alphabetic = 1,
}

#[derive(Clone)]
pub struct One { pub c: char, pub done: bool }
impl Iterator for One { type Item = char; fn next(&mut self) -> Option<char> { if self.done { None } else { self.done = true; Some(self.c) } } }

fn in_table(t: &[(u32, u32)], c: u32) -> bool {
    let mut lo = 0usize; let mut hi = t.len();
    while lo < hi {
        let m = lo + (hi - lo) / 2;
        if c < t[m].0 { hi = m } else if c > t[m].1 { lo = m + 1 } else { return true }
    }
    false
}

#[cfg(kani)]
#[kani::proof]
#[kani::unwind(13)]
fn check_alpha() {
    let c: char = kani::any();
    let mut lx = Lx::new_from_iter(One { c, done: false });
    let r = lx.next();
    let acc = matches!(r, Some(Ok((_, 1, _))));
    let rej = matches!(r, Some(Err(_)));
    assert!(acc || rej);
    if c == 'a' { assert!(acc); } if c == '1' { assert!(rej); }
}
