#![feature(allocator_api)]
use vstd::prelude::*;
use std::cmp::{max, min, Ordering};
use std::mem::take;
use vstd::std_specs::cmp::*;
use vstd::std_specs::iter::IteratorSpec;
use std::ops::RangeInclusive;
verus! {

pub assume_specification<T: Default> [std::mem::take::<T>] (x: &mut T) -> (r: T)
    ensures r == *old(x);
pub assume_specification<T: Ord> [std::cmp::max::<T>] (a: T, b: T) -> (r: T)
    ensures T::obeys_cmp_spec() ==> r == (if a.cmp_spec(&b) == Ordering::Greater { a } else { b });
pub assume_specification<T: Ord> [std::cmp::min::<T>] (a: T, b: T) -> (r: T)
    ensures T::obeys_cmp_spec() ==> r == (if a.cmp_spec(&b) == Ordering::Greater { b } else { a });
pub assume_specification<T> [RangeInclusive::<T>::start] (r: &RangeInclusive<T>) -> (s: &T)
    ensures *s == r@.start;
pub assume_specification<T> [RangeInclusive::<T>::end] (r: &RangeInclusive<T>) -> (s: &T)
    ensures *s == r@.end;
pub uninterp spec fn into_iter_seq<I: IntoIterator>(i: I) -> Seq<I::Item>;
pub assume_specification<T, A: std::alloc::Allocator, I: IntoIterator<Item = T>> [<Vec<T, A> as Extend<T>>::extend] (v: &mut Vec<T, A>, it: I)
    ensures final(v)@ == old(v)@ + into_iter_seq(it);
pub broadcast axiom fn into_iter_seq_vec<T>(i: std::vec::IntoIter<T>)
    ensures #[trigger] into_iter_seq(i) == i.remaining();

pub struct RangeMap<A> {
    ranges: Vec<Range<A>>,
}

pub struct Range<A> {
    pub start: u32,
    pub end: u32,
    pub value: A,
}
pub uninterp spec fn cloned_val<A>(a: A, b: A) -> bool;
impl<A: Clone> Clone for Range<A> {
    #[verifier::external_body]
    fn clone(&self) -> (c: Self)
        ensures c.start == self.start, c.end == self.end, cloned_val(self.value, c.value)
    { Range { start: self.start, end: self.end, value: self.value.clone() } }
}

pub open spec fn wf<A>(s: Seq<Range<A>>) -> bool {
    &&& forall|i: int| 0 <= i < s.len() ==> (#[trigger] s[i]).start <= s[i].end
    &&& forall|i: int, j: int| 0 <= i < j < s.len() ==> (#[trigger] s[i]).end < (#[trigger] s[j]).start
}
pub open spec fn covers<A>(s: Seq<Range<A>>, c: u32) -> bool {
    exists|i: int| 0 <= i < s.len() && (#[trigger] s[i]).start <= c <= s[i].end
}
impl<A> RangeMap<A> { pub closed spec fn rs(&self) -> Seq<Range<A>> { self.ranges@ } }

// ---------------------------------------------------------------------------------------------
// abstract state of the subtraction loop
//   R old ranges, M removed ranges, new = output so far, cur = current (possibly shrunk) old piece,
//   i = index of cur in R (|R| if none), j = index of the current removed range (|M| if none)
pub open spec fn frontier<A>(cur: Option<Range<A>>) -> int {
    match cur { Some(c) => c.start as int, None => 0x1_0000_0000 }
}
#[verifier::opaque]
pub open spec fn inv<A, B>(R: Seq<Range<A>>, M: Seq<Range<B>>, new: Seq<Range<A>>, cur: Option<Range<A>>, i: int, j: int) -> bool {
    &&& wf(R) && wf(M) && wf(new)
    &&& 0 <= i <= R.len() && 0 <= j <= M.len()
    &&& (cur matches Some(c) ==> i < R.len() && R[i].start <= c.start <= c.end && c.end == R[i].end)
    &&& (cur is None ==> i == R.len())
    &&& forall|k: int| 0 <= k < new.len() ==> (#[trigger] new[k]).end < frontier(cur)
    &&& forall|x: u32| #[trigger] covers(new, x) <==> (covers(R, x) && !covers(M, x) && x < frontier(cur))
    &&& forall|k: int| 0 <= k < j ==> (#[trigger] M[k]).end < frontier(cur)
}
pub open spec fn next_cur<A>(R: Seq<Range<A>>, i: int) -> Option<Range<A>> {
    if i + 1 < R.len() { Some(R[i + 1]) } else { None }
}

pub proof fn lemma_covers_push<A>(s: Seq<Range<A>>, r: Range<A>, c: u32)
    ensures covers(s.push(r), c) <==> (covers(s, c) || r.start <= c <= r.end)
{
    let t = s.push(r);
    if covers(t, c) {
        let i = choose|i: int| 0 <= i < t.len() && (#[trigger] t[i]).start <= c <= t[i].end;
        if i < s.len() { assert(s[i] == t[i]); }
    }
    if covers(s, c) {
        let i = choose|i: int| 0 <= i < s.len() && (#[trigger] s[i]).start <= c <= s[i].end;
        assert(t[i] == s[i]);
    }
    if r.start <= c <= r.end { assert(t[s.len() as int] == r); }
}
// in a wf sequence, a point inside [R[i].start, R[i+1].start) that is covered is covered by R[i]
pub proof fn lemma_covered_by<A>(R: Seq<Range<A>>, i: int, x: u32)
    requires wf(R), 0 <= i < R.len(), R[i].start <= x, i + 1 < R.len() ==> x < R[i + 1].start
    ensures covers(R, x) <==> x <= R[i].end
{
    if covers(R, x) {
        let k = choose|k: int| 0 <= k < R.len() && (#[trigger] R[k]).start <= x <= R[k].end;
        if k < i { assert(R[k].end < R[i].start); }
        if k > i { if k > i + 1 { assert(R[i + 1].end < R[k].start); } assert(false); }
    }
    if x <= R[i].end { assert(R[i].start <= x <= R[i].end); }
}
// M-membership of a point x >= frontier when all passed ranges are behind: decided by M[j] and later
pub proof fn lemma_not_in_M_before<B>(M: Seq<Range<B>>, j: int, x: u32, f: int)
    requires wf(M), 0 <= j <= M.len(), forall|k: int| 0 <= k < j ==> (#[trigger] M[k]).end < f, f <= x,
        j < M.len() ==> x < M[j].start
    ensures !covers(M, x)
{
    if covers(M, x) {
        let k = choose|k: int| 0 <= k < M.len() && (#[trigger] M[k]).start <= x <= M[k].end;
        if k < j { assert(M[k].end < f); }
        else { if k > j { assert(M[j].end < M[k].start); } assert(false); }
    }
}
pub proof fn lemma_in_M_at<B>(M: Seq<Range<B>>, j: int, x: u32)
    requires 0 <= j < M.len(), M[j].start <= x <= M[j].end
    ensures covers(M, x)
{
}

// B1: current piece lies entirely before the current removed range (or there is none): emit it
pub proof fn lemma_emit_whole<A, B>(R: Seq<Range<A>>, M: Seq<Range<B>>, new: Seq<Range<A>>, c: Range<A>, p: Range<A>, i: int, j: int)
    requires inv(R, M, new, Some(c), i, j), p.start == c.start, p.end == c.end,
        j < M.len() ==> c.end < M[j].start
    ensures inv(R, M, new.push(p), next_cur(R, i), i + 1, j)
{
    reveal(inv);
    let t = new.push(p); let nc = next_cur(R, i); let f2 = frontier(nc);
    assert(wf(t)) by {
        assert forall|a: int, b: int| 0 <= a < b < t.len() implies (#[trigger] t[a]).end < (#[trigger] t[b]).start by {
            if b < new.len() { assert(t[a] == new[a] && t[b] == new[b]); } else { assert(t[a] == new[a]); }
        }
        assert forall|a: int| 0 <= a < t.len() implies (#[trigger] t[a]).start <= t[a].end by { if a < new.len() { assert(t[a] == new[a]); } }
    }
    assert forall|k: int| 0 <= k < t.len() implies (#[trigger] t[k]).end < f2 by {
        if k < new.len() { assert(t[k] == new[k]); }
        if i + 1 < R.len() { assert(R[i].end < R[i + 1].start); }
    }
    assert forall|x: u32| #[trigger] covers(t, x) <==> (covers(R, x) && !covers(M, x) && x < f2) by {
        lemma_covers_push(new, p, x);
        if c.start <= x && x < f2 {
            lemma_covered_by(R, i, x);
            if x <= c.end { lemma_not_in_M_before(M, j, x, c.start as int); }
        }
        if x >= f2 { assert(!(p.start <= x <= p.end)) by { if i + 1 < R.len() { assert(R[i].end < R[i + 1].start); } } }
    }
    assert forall|k: int| 0 <= k < j implies (#[trigger] M[k]).end < f2 by {
        if i + 1 < R.len() { assert(R[i].end < R[i + 1].start); }
    }
}

pub proof fn lemma_wf_push<A>(new: Seq<Range<A>>, p: Range<A>, f: int)
    requires wf(new), forall|k: int| 0 <= k < new.len() ==> (#[trigger] new[k]).end < f, f <= p.start <= p.end
    ensures wf(new.push(p))
{
    let t = new.push(p);
    assert forall|a: int, b: int| 0 <= a < b < t.len() implies (#[trigger] t[a]).end < (#[trigger] t[b]).start by {
        if b < new.len() { assert(t[a] == new[a] && t[b] == new[b]); } else { assert(t[a] == new[a]); }
    }
    assert forall|a: int| 0 <= a < t.len() implies (#[trigger] t[a]).start <= t[a].end by { if a < new.len() { assert(t[a] == new[a]); } }
}

// B2: the current removed range lies entirely before the current piece: skip it
pub proof fn lemma_skip_removed<A, B>(R: Seq<Range<A>>, M: Seq<Range<B>>, new: Seq<Range<A>>, c: Range<A>, i: int, j: int)
    requires inv(R, M, new, Some(c), i, j), j < M.len(), M[j].end < c.start
    ensures inv(R, M, new, Some(c), i, j + 1)
{
    reveal(inv);
}

// B3a: the removed range covers the whole current piece: drop the piece, keep the removed range
pub proof fn lemma_drop_piece<A, B>(R: Seq<Range<A>>, M: Seq<Range<B>>, new: Seq<Range<A>>, c: Range<A>, i: int, j: int)
    requires inv(R, M, new, Some(c), i, j), j < M.len(), M[j].start <= c.start, c.end <= M[j].end
    ensures inv(R, M, new, next_cur(R, i), i + 1, j)
{
    reveal(inv);
    let nc = next_cur(R, i); let f2 = frontier(nc);
    if i + 1 < R.len() { assert(R[i].end < R[i + 1].start); }
    assert forall|x: u32| #[trigger] covers(new, x) <==> (covers(R, x) && !covers(M, x) && x < f2) by {
        if c.start <= x && x < f2 {
            lemma_covered_by(R, i, x);
            if x <= c.end { lemma_in_M_at(M, j, x); }
        }
    }
}

// B3b: the removed range eats a proper prefix of the piece: shrink the piece, advance the removed range
pub proof fn lemma_shrink_left<A, B>(R: Seq<Range<A>>, M: Seq<Range<B>>, new: Seq<Range<A>>, c: Range<A>, c2: Range<A>, i: int, j: int)
    requires inv(R, M, new, Some(c), i, j), j < M.len(), M[j].start <= c.start <= M[j].end, M[j].end < c.end,
        c2.start == M[j].end + 1, c2.end == c.end
    ensures inv(R, M, new, Some(c2), i, j + 1)
{
    reveal(inv);
    assert forall|x: u32| #[trigger] covers(new, x) <==> (covers(R, x) && !covers(M, x) && x < c2.start) by {
        if c.start <= x && x < c2.start { lemma_in_M_at(M, j, x); }
    }
}

// B4 / B5: emit the part of the piece left of the removed range
pub proof fn lemma_emit_left_advance<A, B>(R: Seq<Range<A>>, M: Seq<Range<B>>, new: Seq<Range<A>>, c: Range<A>, p: Range<A>, i: int, j: int)
    requires inv(R, M, new, Some(c), i, j), j < M.len(), c.start < M[j].start <= c.end, c.end <= M[j].end,
        p.start == c.start, p.end == M[j].start - 1
    ensures inv(R, M, new.push(p), next_cur(R, i), i + 1, j)
{
    reveal(inv);
    let t = new.push(p); let nc = next_cur(R, i); let f2 = frontier(nc);
    if i + 1 < R.len() { assert(R[i].end < R[i + 1].start); }
    lemma_wf_push(new, p, c.start as int);
    assert forall|k: int| 0 <= k < t.len() implies (#[trigger] t[k]).end < f2 by { if k < new.len() { assert(t[k] == new[k]); } }
    assert forall|x: u32| #[trigger] covers(t, x) <==> (covers(R, x) && !covers(M, x) && x < f2) by {
        lemma_covers_push(new, p, x);
        if c.start <= x && x < f2 {
            lemma_covered_by(R, i, x);
            if x < M[j].start { lemma_not_in_M_before(M, j, x, c.start as int); }
            else if x <= c.end { lemma_in_M_at(M, j, x); }
        }
    }
}
pub proof fn lemma_emit_left_shrink<A, B>(R: Seq<Range<A>>, M: Seq<Range<B>>, new: Seq<Range<A>>, c: Range<A>, p: Range<A>, c2: Range<A>, i: int, j: int)
    requires inv(R, M, new, Some(c), i, j), j < M.len(), c.start < M[j].start, M[j].end < c.end,
        p.start == c.start, p.end == M[j].start - 1, c2.start == M[j].end + 1, c2.end == c.end
    ensures inv(R, M, new.push(p), Some(c2), i, j)
{
    reveal(inv);
    let t = new.push(p);
    lemma_wf_push(new, p, c.start as int);
    assert forall|k: int| 0 <= k < t.len() implies (#[trigger] t[k]).end < c2.start by { if k < new.len() { assert(t[k] == new[k]); } }
    assert forall|x: u32| #[trigger] covers(t, x) <==> (covers(R, x) && !covers(M, x) && x < c2.start) by {
        lemma_covers_push(new, p, x);
        if c.start <= x && x < c2.start {
            lemma_covered_by(R, i, x);
            if x < M[j].start { lemma_not_in_M_before(M, j, x, c.start as int); }
            else { lemma_in_M_at(M, j, x); }
        }
    }
}

pub proof fn lemma_covers_concat<A>(a: Seq<Range<A>>, b: Seq<Range<A>>, c: u32)
    ensures covers(a + b, c) <==> (covers(a, c) || covers(b, c))
{
    let t = a + b;
    if covers(t, c) {
        let i = choose|i: int| 0 <= i < t.len() && (#[trigger] t[i]).start <= c <= t[i].end;
        if i < a.len() { assert(a[i] == t[i]); } else { assert(b[i - a.len()] == t[i]); }
    }
    if covers(a, c) {
        let i = choose|i: int| 0 <= i < a.len() && (#[trigger] a[i]).start <= c <= a[i].end;
        assert(t[i] == a[i]);
    }
    if covers(b, c) {
        let i = choose|i: int| 0 <= i < b.len() && (#[trigger] b[i]).start <= c <= b[i].end;
        assert(t[i + a.len()] == b[i]);
    }
}

// B6: no removed range left: emit the piece and copy the rest
pub proof fn lemma_copy_rest<A, B>(R: Seq<Range<A>>, M: Seq<Range<B>>, new: Seq<Range<A>>, c: Range<A>, p: Range<A>, i: int)
    requires inv(R, M, new, Some(c), i, M.len() as int), p.start == c.start, p.end == c.end
    ensures ({ let fin = new.push(p) + R.skip(i + 1);
        wf(fin) && forall|x: u32| #[trigger] covers(fin, x) <==> (covers(R, x) && !covers(M, x)) })
{
    reveal(inv);
    let rest = R.skip(i + 1); let t = new.push(p); let fin = t + rest;
    lemma_wf_push(new, p, c.start as int);
    assert(wf(fin)) by {
        assert forall|a: int, b: int| 0 <= a < b < fin.len() implies (#[trigger] fin[a]).end < (#[trigger] fin[b]).start by {
            if b < t.len() { assert(fin[a] == t[a] && fin[b] == t[b]); }
            else {
                assert(fin[b] == R[i + 1 + (b - t.len())]);
                if a < t.len() {
                    assert(fin[a] == t[a]);
                    if a < new.len() { assert(t[a] == new[a]); }
                    assert(R[i].end < R[i + 1 + (b - t.len())].start);
                } else { assert(fin[a] == R[i + 1 + (a - t.len())]); }
            }
        }
        assert forall|a: int| 0 <= a < fin.len() implies (#[trigger] fin[a]).start <= fin[a].end by {
            if a < t.len() { assert(fin[a] == t[a]); } else { assert(fin[a] == R[i + 1 + (a - t.len())]); }
        }
    }
    assert forall|x: u32| #[trigger] covers(fin, x) <==> (covers(R, x) && !covers(M, x)) by {
        lemma_covers_concat(t, rest, x);
        lemma_covers_push(new, p, x);
        assert(R =~= R.take(i + 1) + rest);
        lemma_covers_concat(R.take(i + 1), rest, x);
        if x >= c.start {
            lemma_not_in_M_before(M, M.len() as int, x, c.start as int);
            if covers(rest, x) {} else {
                // x is not in a later piece: decided by R[i]
                if covers(R.take(i + 1), x) {
                    let k = choose|k: int| 0 <= k < i + 1 && (#[trigger] R.take(i + 1)[k]).start <= x <= R.take(i + 1)[k].end;
                    assert(R.take(i + 1)[k] == R[k]);
                    if k < i { assert(R[k].end < R[i].start); }
                }
                if c.start <= x <= c.end { assert(R.take(i + 1)[i] == R[i]); }
            }
        } else {
            if covers(rest, x) {
                let k = choose|k: int| 0 <= k < rest.len() && (#[trigger] rest[k]).start <= x <= rest[k].end;
                assert(rest[k] == R[i + 1 + k]);
                assert(R[i].end < R[i + 1 + k].start);
            }
        }
    }
}

// B7: no old piece left
pub proof fn lemma_done<A, B>(R: Seq<Range<A>>, M: Seq<Range<B>>, new: Seq<Range<A>>, i: int, j: int)
    requires inv(R, M, new, None, i, j)
    ensures wf(new), forall|x: u32| #[trigger] covers(new, x) <==> (covers(R, x) && !covers(M, x))
{
    reveal(inv);
}
pub proof fn lemma_start<A, B>(R: Seq<Range<A>>, M: Seq<Range<B>>)
    requires wf(R), wf(M)
    ensures inv(R, M, Seq::<Range<A>>::empty(), if R.len() > 0 { Some(R[0]) } else { None }, 0, 0)
{
    reveal(inv);
    let new = Seq::<Range<A>>::empty();
    let cur = if R.len() > 0 { Some(R[0]) } else { None };
    assert forall|x: u32| #[trigger] covers(new, x) <==> (covers(R, x) && !covers(M, x) && x < frontier(cur)) by {
        if R.len() > 0 && covers(R, x) && x < R[0].start {
            let k = choose|k: int| 0 <= k < R.len() && (#[trigger] R[k]).start <= x <= R[k].end;
            if k > 0 { assert(R[0].end < R[k].start); }
        }
    }
}

pub open spec fn idx_o<A>(R: Seq<Range<A>>, rem: Seq<Range<A>>, cur: Option<Range<A>>) -> int {
    R.len() - rem.len() - (if cur is Some { 1int } else { 0int })
}
pub open spec fn idx_m<B>(M: Seq<Range<B>>, rem: Seq<&Range<B>>, cur: Option<&Range<B>>) -> int {
    M.len() - rem.len() - (if cur is Some { 1int } else { 0int })
}
pub open spec fn b2i(b: bool) -> int { if b { 1 } else { 0 } }

impl<A: Clone> RangeMap<A> {
    /// O(N+M) where N is the number of current ranges and M is the number of removed ranges
    pub fn remove_ranges<B>(&mut self, other: &RangeMap<B>)
        requires wf(old(self).rs()), wf(other.rs()),
        ensures wf(final(self).rs()),
            forall|x: u32| #[trigger] covers(final(self).rs(), x) <==> (covers(old(self).rs(), x) && !covers(other.rs(), x)),
    {
        let ghost R = old(self).rs();
        let ghost M = other.rs();
        let old_ranges = take(&mut self.ranges);
        let mut new_ranges: Vec<Range<A>> = Vec::with_capacity(old_ranges.len());

        let mut removed_ranges_iter = other.ranges.iter();
        let mut removed_range = removed_ranges_iter.next();

        let mut old_ranges_iter = old_ranges.into_iter();
        let mut old_range = old_ranges_iter.next();

        proof { lemma_start(R, M); assert(new_ranges@ =~= Seq::<Range<A>>::empty()); }

        loop
            invariant_except_break
                inv(R, M, new_ranges@, old_range, idx_o(R, old_ranges_iter.remaining(), old_range), idx_m(M, removed_ranges_iter.remaining(), removed_range)),
            invariant
                old_ranges_iter.remaining().len() <= R.len(),
                old_ranges_iter.remaining() =~= R.skip(R.len() - old_ranges_iter.remaining().len()),
                old_range is None ==> old_ranges_iter.remaining().len() == 0,
                removed_ranges_iter.remaining().len() <= M.len(),
                forall|k: int| 0 <= k < removed_ranges_iter.remaining().len() ==>
                    *(#[trigger] removed_ranges_iter.remaining()[k]) == M[M.len() - removed_ranges_iter.remaining().len() + k],
                removed_range is None ==> removed_ranges_iter.remaining().len() == 0,
                removed_range matches Some(m) ==> *m == M[idx_m(M, removed_ranges_iter.remaining(), removed_range)],
                idx_m(M, removed_ranges_iter.remaining(), removed_range) >= 0,
                idx_o(R, old_ranges_iter.remaining(), old_range) >= 0,
                old_ranges_iter.decrease() is Some, removed_ranges_iter.decrease() is Some,
            ensures
                wf(new_ranges@),
                forall|x: u32| #[trigger] covers(new_ranges@, x) <==> (covers(R, x) && !covers(M, x)),
            decreases
                2 * ((if old_range is Some { old_ranges_iter.decrease().unwrap() + 1 } else { 0 })
                   + (if removed_range is Some { removed_ranges_iter.decrease().unwrap() + 1 } else { 0 }))
                + b2i(old_range is Some && removed_range is Some && removed_range.unwrap().end >= old_range.unwrap().start),
        {
            let ghost i = idx_o(R, old_ranges_iter.remaining(), old_range);
            let ghost j = idx_m(M, removed_ranges_iter.remaining(), removed_range);
            let ghost nr = new_ranges@;
            match (&mut old_range, removed_range) {
                (Some(ref mut old_range_), Some(removed_range_)) => {
                    let ghost c0 = *old_range_;
                    if old_range_.end < removed_range_.start {
                        new_ranges.push(old_range_.clone());
                        proof {
                            let p = new_ranges@[new_ranges@.len() - 1];
                            assert(new_ranges@ =~= nr.push(p));
                            lemma_emit_whole(R, M, nr, c0, p, i, j);
                        }
                        old_range = old_ranges_iter.next();
                    } else if removed_range_.end < old_range_.start {
                        proof { lemma_skip_removed(R, M, nr, *old_range_, i, j); }
                        removed_range = removed_ranges_iter.next();
                    } else {
                        let overlap = max(old_range_.start, removed_range_.start)
                            ..=min(old_range_.end, removed_range_.end);

                        // (1)
                        if *overlap.start() == old_range_.start {
                            old_range_.start = *overlap.end() + 1;
                            removed_range = removed_ranges_iter.next();
                        }
                        // (2)
                        else if *overlap.end() == old_range_.end {
                            let new_range = Range {
                                start: old_range_.start,
                                end: *overlap.start() - 1,
                                value: old_range_.value.clone(),
                            };
                            proof { lemma_emit_left_advance(R, M, nr, c0, new_range, i, j); }
                            new_ranges.push(new_range);
                            old_range = old_ranges_iter.next();
                        }
                        // (3)
                        else {
                            let new_range = Range {
                                start: old_range_.start,
                                end: *overlap.start() - 1,
                                value: old_range_.value.clone(),
                            };
                            new_ranges.push(new_range);
                            old_range_.start = overlap.end() + 1;
                            proof { lemma_emit_left_shrink(R, M, nr, c0, new_range, *old_range_, i, j); }
                        }
                    }
                }
                (Some(old_range_), None) => {
                    new_ranges.push(old_range_.clone());
                    proof {
                        broadcast use into_iter_seq_vec;
                        let p = new_ranges@[new_ranges@.len() - 1];
                        assert(new_ranges@ =~= nr.push(p));
                        lemma_copy_rest(R, M, nr, *old_range_, p, i);
                        assert(old_ranges_iter.remaining() =~= R.skip(i + 1));
                    }
                    new_ranges.extend(old_ranges_iter);
                    break;
                }
                (None, Some(_removed_range_)) => { proof { lemma_done(R, M, nr, i, j); } break }
                (None, None) => { proof { lemma_done(R, M, nr, i, j); } break }
            }
        }

        self.ranges = new_ranges;
    }
}
}
fn main(){}
