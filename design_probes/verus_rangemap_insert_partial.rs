#![feature(allocator_api)]
use vstd::prelude::*;
use std::cmp::{max, min, Ordering};
use std::mem::take;
use vstd::std_specs::cmp::*;
use vstd::std_specs::iter::IteratorSpec;
use std::ops::RangeInclusive;
verus! {

pub assume_specification<T: Default> [std::mem::take::<T>] (x: &mut T) -> (r: T)
    ensures r == *old(x);
pub assume_specification<T: Ord> [std::cmp::max::<T>] (a: T, b: T) -> (r: T)
    ensures T::obeys_cmp_spec() ==> r == (if a.cmp_spec(&b) == Ordering::Greater { a } else { b });
pub assume_specification<T: Ord> [std::cmp::min::<T>] (a: T, b: T) -> (r: T)
    ensures T::obeys_cmp_spec() ==> r == (if a.cmp_spec(&b) == Ordering::Greater { b } else { a });
pub assume_specification<T> [RangeInclusive::<T>::start] (r: &RangeInclusive<T>) -> (s: &T)
    ensures *s == r@.start;
pub assume_specification<T> [RangeInclusive::<T>::end] (r: &RangeInclusive<T>) -> (s: &T)
    ensures *s == r@.end;
pub uninterp spec fn into_iter_seq<I: IntoIterator>(i: I) -> Seq<I::Item>;
pub assume_specification<T, A: std::alloc::Allocator, I: IntoIterator<Item = T>> [<Vec<T, A> as Extend<T>>::extend] (v: &mut Vec<T, A>, it: I)
    ensures final(v)@ == old(v)@ + into_iter_seq(it);
pub broadcast axiom fn into_iter_seq_vec<T>(i: std::vec::IntoIter<T>)
    ensures #[trigger] into_iter_seq(i) == i.remaining();

pub struct RangeMap<A> {
    ranges: Vec<Range<A>>,
}

pub struct Range<A> {
    pub start: u32,
    pub end: u32,
    pub value: A,
}

pub open spec fn wf<A>(s: Seq<Range<A>>) -> bool {
    &&& forall|i: int| 0 <= i < s.len() ==> (#[trigger] s[i]).start <= s[i].end
    &&& forall|i: int, j: int| 0 <= i < j < s.len() ==> (#[trigger] s[i]).end < (#[trigger] s[j]).start
}
pub open spec fn covers<A>(s: Seq<Range<A>>, c: u32) -> bool {
    exists|i: int| 0 <= i < s.len() && (#[trigger] s[i]).start <= c <= s[i].end
}


pub broadcast proof fn lemma_covers_push<A>(s: Seq<Range<A>>, r: Range<A>, c: u32)
    ensures #[trigger] covers(s.push(r), c) <==> (covers(s, c) || r.start <= c <= r.end)
{
    {
        let t = s.push(r);
        if covers(t, c) {
            let i = choose|i: int| 0 <= i < t.len() && (#[trigger] t[i]).start <= c <= t[i].end;
            if i < s.len() { assert(s[i] == t[i]); }
        }
        if covers(s, c) {
            let i = choose|i: int| 0 <= i < s.len() && (#[trigger] s[i]).start <= c <= s[i].end;
            assert(t[i] == s[i]);
        }
        if r.start <= c <= r.end { assert(t[s.len() as int] == r); }
    }
}
pub broadcast proof fn lemma_covers_concat<A>(a: Seq<Range<A>>, b: Seq<Range<A>>, c: u32)
    ensures #[trigger] covers(a + b, c) <==> (covers(a, c) || covers(b, c))
{
    {
        let t = a + b;
        if covers(t, c) {
            let i = choose|i: int| 0 <= i < t.len() && (#[trigger] t[i]).start <= c <= t[i].end;
            if i < a.len() { assert(a[i] == t[i]); } else { assert(b[i - a.len()] == t[i]); }
        }
        if covers(a, c) {
            let i = choose|i: int| 0 <= i < a.len() && (#[trigger] a[i]).start <= c <= a[i].end;
            assert(t[i] == a[i]);
        }
        if covers(b, c) {
            let i = choose|i: int| 0 <= i < b.len() && (#[trigger] b[i]).start <= c <= b[i].end;
            assert(t[i + a.len()] == b[i]);
        }
    }
}
pub proof fn lemma_covers_split<A>(s: Seq<Range<A>>, k: int)
    requires 0 <= k <= s.len()
    ensures forall|c: u32| covers(s, c) <==> (covers(s.take(k), c) || covers(s.skip(k), c))
{
    assert(s =~= s.take(k) + s.skip(k));
    assert forall|c: u32| covers(s, c) <==> (covers(s.take(k), c) || covers(s.skip(k), c)) by {
        lemma_covers_concat(s.take(k), s.skip(k), c);
    }
}
pub broadcast proof fn lemma_covers_one<A>(r: Range<A>, c: u32)
    ensures #[trigger] covers(seq![r], c) <==> (r.start <= c <= r.end)
{
    let t = seq![r];
    if covers(t, c) { let i = choose|i: int| 0 <= i < t.len() && (#[trigger] t[i]).start <= c <= t[i].end; assert(t[i] == r); }
    if r.start <= c <= r.end { assert(t[0] == r); }
}
pub broadcast group covers_lemmas { lemma_covers_push, lemma_covers_concat, lemma_covers_one }

impl<A> RangeMap<A> { pub closed spec fn rs(&self) -> Seq<Range<A>> { self.ranges@ } }
impl<A: Clone> RangeMap<A> {
    pub fn insert<F>(&mut self, mut new_range_start: u32, new_range_end: u32, value: A, merge: F)
    where
        F: Fn(&mut A, A),
    requires
        wf(old(self).rs()),
        old(self).rs().len() + 2 <= usize::MAX,
        new_range_start <= new_range_end,
        forall|a: &mut A, b: A| merge.requires((a, b)),
    ensures
        wf(final(self).rs()),
        forall|c: u32| covers(final(self).rs(), c) <==> (covers(old(self).rs(), c) || new_range_start <= c <= new_range_end),
    {
        let ghost ns0 = new_range_start;
        let ghost R = old(self).rs();
        let old_ranges = take(&mut self.ranges);
        let mut new_ranges = Vec::with_capacity(old_ranges.len() + 2);

        let mut range_iter = old_ranges.into_iter();

        while let Some(range) = range_iter.next()
            invariant
                wf(R),
                range_iter.remaining().len() <= R.len(),
                range_iter.remaining() == R.skip(R.len() - range_iter.remaining().len()),
                wf(new_ranges@),
                ns0 <= new_range_start <= new_range_end,
                forall|i: int| 0 <= i < new_ranges@.len() ==> (#[trigger] new_ranges@[i]).end < new_range_start,
                forall|j: int| 0 <= j < R.len() - range_iter.remaining().len() ==> (#[trigger] R[j]).end < new_range_start,
                forall|i: int| 0 <= i < new_ranges@.len() && range_iter.remaining().len() > 0 ==> (#[trigger] new_ranges@[i]).end < range_iter.remaining()[0].start,
                forall|c: u32| covers(new_ranges@, c) <==> (covers(R.take(R.len() - range_iter.remaining().len()), c) || ns0 <= c < new_range_start),
                forall|a: &mut A, b: A| merge.requires((a, b)),
                range_iter.decrease() is Some,
            decreases range_iter.decrease().unwrap(),
        {
            let ghost k = R.len() - range_iter.remaining().len() - 1;
            let ghost nr0 = new_ranges@;
            proof {
                broadcast use into_iter_seq_vec;
                broadcast use covers_lemmas;
                assert(range == R[k]);
                assert(R.take(k + 1) =~= R.take(k).push(R[k]));
                lemma_covers_split(R, k + 1);
                lemma_covers_split(R, k);
                assert(R.skip(k) =~= seq![R[k]] + R.skip(k + 1));
                assert(range_iter.remaining() =~= R.skip(k + 1));
            }
            if range.end < new_range_start {
                new_ranges.push(range);
            } else if range.start > new_range_end {
                new_ranges.push(Range {
                    start: new_range_start,
                    end: new_range_end,
                    value,
                });
                new_ranges.push(range);
                new_ranges.extend(range_iter);
                self.ranges = new_ranges;
                return;
            } else {
                let overlap = max(new_range_start, range.start)..=min(new_range_end, range.end);

                if new_range_start < *overlap.start() {
                    new_ranges.push(Range {
                        start: new_range_start,
                        end: *overlap.start() - 1,
                        value: value.clone(),
                    });
                }
                else if range.start < *overlap.start() {
                    new_ranges.push(Range {
                        start: range.start,
                        end: overlap.start() - 1,
                        value: range.value.clone(),
                    });
                }

                let mut overlap_values = range.value.clone();
                merge(&mut overlap_values, value.clone());
                new_ranges.push(Range {
                    start: *overlap.start(),
                    end: *overlap.end(),
                    value: overlap_values,
                });

                if range.end > *overlap.end() {
                    new_ranges.push(Range {
                        start: *overlap.end() + 1,
                        end: range.end,
                        value: range.value,
                    });
                }
                else if new_range_end > *overlap.end() {
                    new_range_start = *overlap.end() + 1;
                    continue;
                }

                new_ranges.extend(range_iter);
                self.ranges = new_ranges;
                return;
            }
        }

        let push_new_range = match new_ranges.last() {
            None => true,
            Some(last_range) => last_range.end < new_range_start,
        };

        if push_new_range {
            new_ranges.push(Range {
                start: new_range_start,
                end: new_range_end,
                value,
            });
        }

        self.ranges = new_ranges;
    }
}
}
fn main(){}
