use vstd::prelude::*;
use vstd::std_specs::iter::IteratorSpec;
verus! {
fn f(v: Vec<u32>) -> (s: u64)
{
    let mut it = v.into_iter();
    let mut s = 0u64;
    while let Some(x) = it.next()
        invariant it.decrease() is Some
        decreases it.decrease().unwrap()
    {
        if x == 3 { continue; }
        s = s.wrapping_add(x as u64);
    }
    s
}
}
fn main(){}
