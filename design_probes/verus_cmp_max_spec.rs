use vstd::prelude::*;
use vstd::std_specs::cmp::*;
use std::cmp::Ordering;
verus! {
pub assume_specification<T: Ord> [std::cmp::max::<T>] (a: T, b: T) -> (r: T)
    ensures T::obeys_cmp_spec() ==> r == (if a.cmp_spec(&b) == Ordering::Greater { a } else { b });

fn f(a: u32, b: u32) -> (r: u32)
  ensures r >= a, r >= b, r == a || r == b
{
    std::cmp::max(a, b)
}
fn g(a: u32, b: u32) -> (r: bool)
  ensures r == (a < b)
{
    match a.cmp(&b) { Ordering::Less => true, Ordering::Equal => false, Ordering::Greater => false }
}
}
fn main(){}
