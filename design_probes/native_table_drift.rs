#[path = "/repo/crates/lexgen/src/char_ranges.rs"]
#[allow(dead_code)]
mod char_ranges;
use char_ranges::*;
fn in_table(t: &[(u32, u32)], c: u32) -> bool { t.iter().any(|&(s,e)| s <= c && c <= e) }
fn main() {
    let tabs: Vec<(&str, &[(u32,u32)], fn(char)->bool)> = vec![
      ("ALPHABETIC", &ALPHABETIC, char::is_alphabetic),
      ("ALPHANUMERIC", &ALPHANUMERIC, char::is_alphanumeric),
      ("CONTROL", &CONTROL, char::is_control),
      ("LOWERCASE", &LOWERCASE, char::is_lowercase),
      ("NUMERIC", &NUMERIC, char::is_numeric),
      ("UPPERCASE", &UPPERCASE, char::is_uppercase),
      ("WHITESPACE", &WHITESPACE, char::is_whitespace),
      ("XID_START", &XID_START, |c| unicode_xid::UnicodeXID::is_xid_start(c)),
      ("XID_CONTINUE", &XID_CONTINUE, |c| unicode_xid::UnicodeXID::is_xid_continue(c)),
      ("ASCII", &ASCII, |c| c.is_ascii()),
      ("ASCII_ALPHABETIC", &ASCII_ALPHABETIC, |c| c.is_ascii_alphabetic()),
      ("ASCII_ALPHANUMERIC", &ASCII_ALPHANUMERIC, |c| c.is_ascii_alphanumeric()),
      ("ASCII_CONTROL", &ASCII_CONTROL, |c| c.is_ascii_control()),
      ("ASCII_DIGIT", &ASCII_DIGIT, |c| c.is_ascii_digit()),
      ("ASCII_GRAPHIC", &ASCII_GRAPHIC, |c| c.is_ascii_graphic()),
      ("ASCII_HEXDIGIT", &ASCII_HEXDIGIT, |c| c.is_ascii_hexdigit()),
      ("ASCII_LOWERCASE", &ASCII_LOWERCASE, |c| c.is_ascii_lowercase()),
      ("ASCII_PUNCTUATION", &ASCII_PUNCTUATION, |c| c.is_ascii_punctuation()),
      ("ASCII_UPPERCASE", &ASCII_UPPERCASE, |c| c.is_ascii_uppercase()),
      ("ASCII_WHITESPACE", &ASCII_WHITESPACE, |c| c.is_ascii_whitespace()),
    ];
    for (name, t, f) in tabs {
        let mut diffs = 0; let mut first = None;
        for i in 0..=0x10FFFFu32 { if let Some(c) = char::from_u32(i) { if in_table(t, i) != f(c) { diffs += 1; if first.is_none() { first = Some(i); } } } }
        let wf = t.windows(2).all(|w| w[0].1 + 1 < w[1].0) && t.iter().all(|r| r.0 <= r.1);
        println!("{name}: len={} diffs={diffs} first={first:?} wf_maximal={wf}", t.len());
    }
}
