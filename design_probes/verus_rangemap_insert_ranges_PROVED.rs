#![feature(allocator_api)]
use vstd::prelude::*;
use std::cmp::{max, min, Ordering};
use std::mem::take;
use vstd::std_specs::cmp::*;
use vstd::std_specs::iter::IteratorSpec;
use std::ops::RangeInclusive;
verus! {

pub assume_specification<T: Default> [std::mem::take::<T>] (x: &mut T) -> (r: T)
    ensures r == *old(x);
pub assume_specification<T: Ord> [std::cmp::max::<T>] (a: T, b: T) -> (r: T)
    ensures T::obeys_cmp_spec() ==> r == (if a.cmp_spec(&b) == Ordering::Greater { a } else { b });
pub assume_specification<T: Ord> [std::cmp::min::<T>] (a: T, b: T) -> (r: T)
    ensures T::obeys_cmp_spec() ==> r == (if a.cmp_spec(&b) == Ordering::Greater { b } else { a });
pub assume_specification<T> [RangeInclusive::<T>::start] (r: &RangeInclusive<T>) -> (s: &T)
    ensures *s == r@.start;
pub assume_specification<T> [RangeInclusive::<T>::end] (r: &RangeInclusive<T>) -> (s: &T)
    ensures *s == r@.end;
pub uninterp spec fn into_iter_seq<I: IntoIterator>(i: I) -> Seq<I::Item>;
pub assume_specification<T, A: std::alloc::Allocator, I: IntoIterator<Item = T>> [<Vec<T, A> as Extend<T>>::extend] (v: &mut Vec<T, A>, it: I)
    ensures final(v)@ == old(v)@ + into_iter_seq(it);
pub broadcast axiom fn into_iter_seq_vec<T>(i: std::vec::IntoIter<T>)
    ensures #[trigger] into_iter_seq(i) == i.remaining();

pub struct RangeMap<A> {
    ranges: Vec<Range<A>>,
}

pub struct Range<A> {
    pub start: u32,
    pub end: u32,
    pub value: A,
}
pub uninterp spec fn cloned_val<A>(a: A, b: A) -> bool;
impl<A: Clone> Clone for Range<A> {
    #[verifier::external_body]
    fn clone(&self) -> (c: Self)
        ensures c.start == self.start, c.end == self.end, cloned_val(self.value, c.value)
    { Range { start: self.start, end: self.end, value: self.value.clone() } }
}

pub open spec fn wf<A>(s: Seq<Range<A>>) -> bool {
    &&& forall|i: int| 0 <= i < s.len() ==> (#[trigger] s[i]).start <= s[i].end
    &&& forall|i: int, j: int| 0 <= i < j < s.len() ==> (#[trigger] s[i]).end < (#[trigger] s[j]).start
}
pub open spec fn covers<A>(s: Seq<Range<A>>, c: u32) -> bool {
    exists|i: int| 0 <= i < s.len() && (#[trigger] s[i]).start <= c <= s[i].end
}
impl<A> RangeMap<A> { pub closed spec fn rs(&self) -> Seq<Range<A>> { self.ranges@ } }

pub proof fn lemma_covers_push<A>(s: Seq<Range<A>>, r: Range<A>, c: u32)
    ensures covers(s.push(r), c) <==> (covers(s, c) || r.start <= c <= r.end)
{
    let t = s.push(r);
    if covers(t, c) {
        let i = choose|i: int| 0 <= i < t.len() && (#[trigger] t[i]).start <= c <= t[i].end;
        if i < s.len() { assert(s[i] == t[i]); }
    }
    if covers(s, c) {
        let i = choose|i: int| 0 <= i < s.len() && (#[trigger] s[i]).start <= c <= s[i].end;
        assert(t[i] == s[i]);
    }
    if r.start <= c <= r.end { assert(t[s.len() as int] == r); }
}

pub proof fn lemma_wf_push<A>(new: Seq<Range<A>>, p: Range<A>, f: int)
    requires wf(new), forall|k: int| 0 <= k < new.len() ==> (#[trigger] new[k]).end < f, f <= p.start <= p.end
    ensures wf(new.push(p))
{
    let t = new.push(p);
    assert forall|a: int, b: int| 0 <= a < b < t.len() implies (#[trigger] t[a]).end < (#[trigger] t[b]).start by {
        if b < new.len() { assert(t[a] == new[a] && t[b] == new[b]); } else { assert(t[a] == new[a]); }
    }
    assert forall|a: int| 0 <= a < t.len() implies (#[trigger] t[a]).start <= t[a].end by { if a < new.len() { assert(t[a] == new[a]); } }
}

pub proof fn lemma_covers_concat<A>(a: Seq<Range<A>>, b: Seq<Range<A>>, c: u32)
    ensures covers(a + b, c) <==> (covers(a, c) || covers(b, c))
{
    let t = a + b;
    if covers(t, c) {
        let i = choose|i: int| 0 <= i < t.len() && (#[trigger] t[i]).start <= c <= t[i].end;
        if i < a.len() { assert(a[i] == t[i]); } else { assert(b[i - a.len()] == t[i]); }
    }
    if covers(a, c) {
        let i = choose|i: int| 0 <= i < a.len() && (#[trigger] a[i]).start <= c <= a[i].end;
        assert(t[i] == a[i]);
    }
    if covers(b, c) {
        let i = choose|i: int| 0 <= i < b.len() && (#[trigger] b[i]).start <= c <= b[i].end;
        assert(t[i + a.len()] == b[i]);
    }
}


// ---------------------------------------------------------------------------------------------
// merge of two sorted range lists R1 (old) and R2 (inserted)
pub open spec fn st<A>(c: Option<Range<A>>) -> int { match c { Some(r) => r.start as int, None => 0x1_0000_0000 } }
pub open spec fn fr<A>(c1: Option<Range<A>>, c2: Option<Range<A>>) -> int { if st(c1) <= st(c2) { st(c1) } else { st(c2) } }
pub open spec fn cur_ok<A>(R: Seq<Range<A>>, c: Option<Range<A>>, i: int) -> bool {
    &&& 0 <= i <= R.len()
    &&& (c matches Some(r) ==> i < R.len() && R[i].start <= r.start <= r.end && r.end == R[i].end)
    &&& (c is None ==> i == R.len())
}
pub open spec fn shrunk<A>(R: Seq<Range<A>>, c: Option<Range<A>>, i: int) -> bool { c matches Some(r) && r.start > R[i].start }
pub open spec fn nxt<A>(R: Seq<Range<A>>, i: int) -> Option<Range<A>> { if i + 1 < R.len() { Some(R[i + 1]) } else { None } }

#[verifier::opaque]
pub open spec fn inv_m<A>(R1: Seq<Range<A>>, R2: Seq<Range<A>>, new: Seq<Range<A>>, c1: Option<Range<A>>, c2: Option<Range<A>>, i1: int, i2: int) -> bool {
    &&& wf(R1) && wf(R2) && wf(new) && cur_ok(R1, c1, i1) && cur_ok(R2, c2, i2)
    &&& forall|t: int| 0 <= t < new.len() ==> (#[trigger] new[t]).end < fr(c1, c2)
    &&& forall|t: int| 0 <= t < i1 ==> (#[trigger] R1[t]).end < fr(c1, c2)
    &&& forall|t: int| 0 <= t < i2 ==> (#[trigger] R2[t]).end < fr(c1, c2)
    &&& (shrunk(R1, c1, i1) ==> st(c1) <= st(c2))
    &&& (shrunk(R2, c2, i2) ==> st(c2) <= st(c1))
    &&& forall|x: u32| #[trigger] covers(new, x) <==> ((covers(R1, x) || covers(R2, x)) && x < fr(c1, c2))
}
pub open spec fn post_m<A>(R1: Seq<Range<A>>, R2: Seq<Range<A>>, fin: Seq<Range<A>>) -> bool {
    wf(fin) && forall|x: u32| #[trigger] covers(fin, x) <==> (covers(R1, x) || covers(R2, x))
}

// membership of x >= frontier in R, in terms of the current piece
pub proof fn lemma_mem_cur<A>(R: Seq<Range<A>>, c: Option<Range<A>>, i: int, x: u32, f: int)
    requires wf(R), cur_ok(R, c, i), forall|t: int| 0 <= t < i ==> (#[trigger] R[t]).end < f, f <= x,
        shrunk(R, c, i) ==> st(c) <= f,
    ensures covers(R, x) ==> (c is Some && st(c) <= x),
        c is Some && st(c) <= x && (i + 1 < R.len() ==> x < R[i + 1].start) ==> (covers(R, x) <==> x <= c.unwrap().end),
        c is Some && c.unwrap().start <= x <= c.unwrap().end ==> covers(R, x),
{
    if covers(R, x) {
        let t = choose|t: int| 0 <= t < R.len() && (#[trigger] R[t]).start <= x <= R[t].end;
        if t < i { assert(R[t].end < f); }
        if c is Some && t > i { assert(R[i].end < R[t].start); if t > i + 1 { assert(R[i + 1].end < R[t].start); } }
    }
    if c is Some { let r = c.unwrap(); if r.start <= x <= r.end { assert(R[i].start <= x <= R[i].end); } }
}

pub proof fn lemma_m_start<A>(R1: Seq<Range<A>>, R2: Seq<Range<A>>)
    requires wf(R1), wf(R2)
    ensures inv_m(R1, R2, Seq::<Range<A>>::empty(), if R1.len() > 0 { Some(R1[0]) } else { None }, if R2.len() > 0 { Some(R2[0]) } else { None }, 0, 0)
{
    reveal(inv_m);
    let c1 = if R1.len() > 0 { Some(R1[0]) } else { None }; let c2 = if R2.len() > 0 { Some(R2[0]) } else { None };
    let new = Seq::<Range<A>>::empty();
    assert forall|x: u32| #[trigger] covers(new, x) <==> ((covers(R1, x) || covers(R2, x)) && x < fr(c1, c2)) by {
        if x < fr(c1, c2) {
            if covers(R1, x) { let t = choose|t: int| 0 <= t < R1.len() && (#[trigger] R1[t]).start <= x <= R1[t].end; if t > 0 { assert(R1[0].end < R1[t].start); } }
            if covers(R2, x) { let t = choose|t: int| 0 <= t < R2.len() && (#[trigger] R2[t]).start <= x <= R2[t].end; if t > 0 { assert(R2[0].end < R2[t].start); } }
        }
    }
}

// A1: piece 1 lies entirely before piece 2 (or symmetric, by swapping the roles): emit it and advance list 1
pub proof fn lemma_m_emit1<A>(R1: Seq<Range<A>>, R2: Seq<Range<A>>, new: Seq<Range<A>>, c1: Range<A>, c2: Option<Range<A>>, p: Range<A>, i1: int, i2: int)
    requires inv_m(R1, R2, new, Some(c1), c2, i1, i2), c1.end < st(c2), p.start == c1.start, p.end == c1.end
    ensures inv_m(R1, R2, new.push(p), nxt(R1, i1), c2, i1 + 1, i2)
{
    reveal(inv_m);
    let t = new.push(p); let n1 = nxt(R1, i1); let f = fr(Some(c1), c2); let f2 = fr(n1, c2);
    assert(f == c1.start);
    if i1 + 1 < R1.len() { assert(R1[i1].end < R1[i1 + 1].start); }
    lemma_wf_push(new, p, f);
    assert forall|a: int| 0 <= a < t.len() implies (#[trigger] t[a]).end < f2 by { if a < new.len() { assert(t[a] == new[a]); } }
    assert forall|x: u32| #[trigger] covers(t, x) <==> ((covers(R1, x) || covers(R2, x)) && x < f2) by {
        lemma_covers_push(new, p, x);
        if f <= x && x < f2 {
            lemma_mem_cur(R1, Some(c1), i1, x, f);
            lemma_mem_cur(R2, c2, i2, x, f);
        }
    }
}
pub proof fn lemma_m_emit2<A>(R1: Seq<Range<A>>, R2: Seq<Range<A>>, new: Seq<Range<A>>, c1: Option<Range<A>>, c2: Range<A>, p: Range<A>, i1: int, i2: int)
    requires inv_m(R1, R2, new, c1, Some(c2), i1, i2), c2.end < st(c1), p.start == c2.start, p.end == c2.end
    ensures inv_m(R1, R2, new.push(p), c1, nxt(R2, i2), i1, i2 + 1)
{
    reveal(inv_m);
    let t = new.push(p); let n2 = nxt(R2, i2); let f = fr(c1, Some(c2)); let f2 = fr(c1, n2);
    assert(f == c2.start);
    if i2 + 1 < R2.len() { assert(R2[i2].end < R2[i2 + 1].start); }
    lemma_wf_push(new, p, f);
    assert forall|a: int| 0 <= a < t.len() implies (#[trigger] t[a]).end < f2 by { if a < new.len() { assert(t[a] == new[a]); } }
    assert forall|x: u32| #[trigger] covers(t, x) <==> ((covers(R1, x) || covers(R2, x)) && x < f2) by {
        lemma_covers_push(new, p, x);
        if f <= x && x < f2 {
            lemma_mem_cur(R1, c1, i1, x, f);
            lemma_mem_cur(R2, Some(c2), i2, x, f);
        }
    }
}
// overlap, piece 1 starts first: emit its part before piece 2 and shrink it
pub proof fn lemma_m_left1<A>(R1: Seq<Range<A>>, R2: Seq<Range<A>>, new: Seq<Range<A>>, c1: Range<A>, c2: Range<A>, p: Range<A>, d1: Range<A>, i1: int, i2: int)
    requires inv_m(R1, R2, new, Some(c1), Some(c2), i1, i2), c1.start < c2.start <= c1.end,
        p.start == c1.start, p.end == c2.start - 1, d1.start == c2.start, d1.end == c1.end
    ensures inv_m(R1, R2, new.push(p), Some(d1), Some(c2), i1, i2)
{
    reveal(inv_m);
    let t = new.push(p); let f = c1.start as int; let f2 = c2.start as int;
    lemma_wf_push(new, p, f);
    assert forall|a: int| 0 <= a < t.len() implies (#[trigger] t[a]).end < f2 by { if a < new.len() { assert(t[a] == new[a]); } }
    assert forall|x: u32| #[trigger] covers(t, x) <==> ((covers(R1, x) || covers(R2, x)) && x < f2) by {
        lemma_covers_push(new, p, x);
        if f <= x && x < f2 {
            lemma_mem_cur(R1, Some(c1), i1, x, f);
            lemma_mem_cur(R2, Some(c2), i2, x, f);
        }
    }
}
pub proof fn lemma_m_left2<A>(R1: Seq<Range<A>>, R2: Seq<Range<A>>, new: Seq<Range<A>>, c1: Range<A>, c2: Range<A>, p: Range<A>, d2: Range<A>, i1: int, i2: int)
    requires inv_m(R1, R2, new, Some(c1), Some(c2), i1, i2), c2.start < c1.start <= c2.end,
        p.start == c2.start, p.end == c1.start - 1, d2.start == c1.start, d2.end == c2.end
    ensures inv_m(R1, R2, new.push(p), Some(c1), Some(d2), i1, i2)
{
    reveal(inv_m);
    let t = new.push(p); let f = c2.start as int; let f2 = c1.start as int;
    lemma_wf_push(new, p, f);
    assert forall|a: int| 0 <= a < t.len() implies (#[trigger] t[a]).end < f2 by { if a < new.len() { assert(t[a] == new[a]); } }
    assert forall|x: u32| #[trigger] covers(t, x) <==> ((covers(R1, x) || covers(R2, x)) && x < f2) by {
        lemma_covers_push(new, p, x);
        if f <= x && x < f2 {
            lemma_mem_cur(R1, Some(c1), i1, x, f);
            lemma_mem_cur(R2, Some(c2), i2, x, f);
        }
    }
}
// equal starts: emit the common part [s, min(e1,e2)], then advance / shrink
pub proof fn lemma_m_common<A>(R1: Seq<Range<A>>, R2: Seq<Range<A>>, new: Seq<Range<A>>, c1: Range<A>, c2: Range<A>, p: Range<A>,
        n1: Option<Range<A>>, n2: Option<Range<A>>, j1: int, j2: int, i1: int, i2: int)
    requires inv_m(R1, R2, new, Some(c1), Some(c2), i1, i2), c1.start == c2.start,
        p.start == c1.start, p.end == (if c1.end <= c2.end { c1.end } else { c2.end }),
        // list 1: advanced if its piece is used up, else shrunk
        c1.end <= c2.end ==> n1 == nxt(R1, i1) && j1 == i1 + 1,
        c1.end > c2.end ==> j1 == i1 && (n1 matches Some(d) && d.start == c2.end + 1 && d.end == c1.end),
        c2.end <= c1.end ==> n2 == nxt(R2, i2) && j2 == i2 + 1,
        c2.end > c1.end ==> j2 == i2 && (n2 matches Some(d) && d.start == c1.end + 1 && d.end == c2.end),
    ensures inv_m(R1, R2, new.push(p), n1, n2, j1, j2)
{
    reveal(inv_m);
    let t = new.push(p); let f = c1.start as int; let f2 = fr(n1, n2);
    if i1 + 1 < R1.len() { assert(R1[i1].end < R1[i1 + 1].start); }
    if i2 + 1 < R2.len() { assert(R2[i2].end < R2[i2 + 1].start); }
    lemma_wf_push(new, p, f);
    assert(p.end < f2);
    assert forall|a: int| 0 <= a < t.len() implies (#[trigger] t[a]).end < f2 by { if a < new.len() { assert(t[a] == new[a]); } }
    assert forall|x: u32| #[trigger] covers(t, x) <==> ((covers(R1, x) || covers(R2, x)) && x < f2) by {
        lemma_covers_push(new, p, x);
        if f <= x && x < f2 {
            lemma_mem_cur(R1, Some(c1), i1, x, f);
            lemma_mem_cur(R2, Some(c2), i2, x, f);
        }
    }
}
// one list exhausted: emit the current piece of the other and copy its rest
pub proof fn lemma_m_rest1<A>(R1: Seq<Range<A>>, R2: Seq<Range<A>>, new: Seq<Range<A>>, c1: Range<A>, p: Range<A>, i1: int, i2: int)
    requires inv_m(R1, R2, new, Some(c1), None, i1, i2), p.start == c1.start, p.end == c1.end
    ensures post_m(R1, R2, new.push(p) + R1.skip(i1 + 1))
{
    reveal(inv_m);
    let rest = R1.skip(i1 + 1); let t = new.push(p); let fin = t + rest; let f = c1.start as int;
    lemma_wf_push(new, p, f);
    assert(wf(fin)) by {
        assert forall|a: int, b: int| 0 <= a < b < fin.len() implies (#[trigger] fin[a]).end < (#[trigger] fin[b]).start by {
            if b < t.len() { assert(fin[a] == t[a] && fin[b] == t[b]); }
            else {
                assert(fin[b] == R1[i1 + 1 + (b - t.len())]);
                if a < t.len() { assert(fin[a] == t[a]); if a < new.len() { assert(t[a] == new[a]); } assert(R1[i1].end < R1[i1 + 1 + (b - t.len())].start); }
                else { assert(fin[a] == R1[i1 + 1 + (a - t.len())]); }
            }
        }
        assert forall|a: int| 0 <= a < fin.len() implies (#[trigger] fin[a]).start <= fin[a].end by {
            if a < t.len() { assert(fin[a] == t[a]); } else { assert(fin[a] == R1[i1 + 1 + (a - t.len())]); }
        }
    }
    assert forall|x: u32| #[trigger] covers(fin, x) <==> (covers(R1, x) || covers(R2, x)) by {
        lemma_covers_concat(t, rest, x);
        lemma_covers_push(new, p, x);
        if x >= f {
            lemma_mem_cur(R2, None, i2, x, f);
            lemma_mem_cur(R1, Some(c1), i1, x, f);
            if covers(rest, x) {
                let k = choose|k: int| 0 <= k < rest.len() && (#[trigger] rest[k]).start <= x <= rest[k].end;
                assert(rest[k] == R1[i1 + 1 + k]);
            } else if covers(R1, x) {
                let k = choose|k: int| 0 <= k < R1.len() && (#[trigger] R1[k]).start <= x <= R1[k].end;
                if k > i1 { assert(rest[k - i1 - 1] == R1[k]); assert(false); }
                if k < i1 { assert(R1[k].end < f); }
            }
        } else {
            if covers(rest, x) {
                let k = choose|k: int| 0 <= k < rest.len() && (#[trigger] rest[k]).start <= x <= rest[k].end;
                assert(rest[k] == R1[i1 + 1 + k]);
                assert(R1[i1].end < R1[i1 + 1 + k].start);
            }
        }
    }
}
pub proof fn lemma_m_rest2<A>(R1: Seq<Range<A>>, R2: Seq<Range<A>>, new: Seq<Range<A>>, c2: Range<A>, p: Range<A>, i1: int, i2: int)
    requires inv_m(R1, R2, new, None, Some(c2), i1, i2), p.start == c2.start, p.end == c2.end
    ensures post_m(R1, R2, new.push(p) + R2.skip(i2 + 1))
{
    reveal(inv_m);
    let rest = R2.skip(i2 + 1); let t = new.push(p); let fin = t + rest; let f = c2.start as int;
    lemma_wf_push(new, p, f);
    assert(wf(fin)) by {
        assert forall|a: int, b: int| 0 <= a < b < fin.len() implies (#[trigger] fin[a]).end < (#[trigger] fin[b]).start by {
            if b < t.len() { assert(fin[a] == t[a] && fin[b] == t[b]); }
            else {
                assert(fin[b] == R2[i2 + 1 + (b - t.len())]);
                if a < t.len() { assert(fin[a] == t[a]); if a < new.len() { assert(t[a] == new[a]); } assert(R2[i2].end < R2[i2 + 1 + (b - t.len())].start); }
                else { assert(fin[a] == R2[i2 + 1 + (a - t.len())]); }
            }
        }
        assert forall|a: int| 0 <= a < fin.len() implies (#[trigger] fin[a]).start <= fin[a].end by {
            if a < t.len() { assert(fin[a] == t[a]); } else { assert(fin[a] == R2[i2 + 1 + (a - t.len())]); }
        }
    }
    assert forall|x: u32| #[trigger] covers(fin, x) <==> (covers(R1, x) || covers(R2, x)) by {
        lemma_covers_concat(t, rest, x);
        lemma_covers_push(new, p, x);
        if x >= f {
            lemma_mem_cur(R1, None, i1, x, f);
            lemma_mem_cur(R2, Some(c2), i2, x, f);
            if covers(rest, x) {
                let k = choose|k: int| 0 <= k < rest.len() && (#[trigger] rest[k]).start <= x <= rest[k].end;
                assert(rest[k] == R2[i2 + 1 + k]);
            } else if covers(R2, x) {
                let k = choose|k: int| 0 <= k < R2.len() && (#[trigger] R2[k]).start <= x <= R2[k].end;
                if k > i2 { assert(rest[k - i2 - 1] == R2[k]); assert(false); }
                if k < i2 { assert(R2[k].end < f); }
            }
        } else {
            if covers(rest, x) {
                let k = choose|k: int| 0 <= k < rest.len() && (#[trigger] rest[k]).start <= x <= rest[k].end;
                assert(rest[k] == R2[i2 + 1 + k]);
                assert(R2[i2].end < R2[i2 + 1 + k].start);
            }
        }
    }
}
pub proof fn lemma_m_done<A>(R1: Seq<Range<A>>, R2: Seq<Range<A>>, new: Seq<Range<A>>, i1: int, i2: int)
    requires inv_m(R1, R2, new, None, None, i1, i2)
    ensures post_m(R1, R2, new)
{
    reveal(inv_m);
}

pub broadcast axiom fn into_iter_seq_any<I: Iterator>(i: I)
    requires i.obeys_prophetic_iter_laws()
    ensures #[trigger] into_iter_seq(i) == i.remaining();
pub open spec fn b2i(b: bool) -> int { if b { 1 } else { 0 } }
pub open spec fn ix<A>(R: Seq<Range<A>>, rem: Seq<Range<A>>, cur: Option<Range<A>>) -> int {
    R.len() - rem.len() - (if cur is Some { 1int } else { 0int })
}

impl<A: Clone> RangeMap<A> {
    /// O(N+M) where N is the number of current ranges and M is the number of inserted ranges
    pub fn insert_ranges<F, I>(&mut self, ranges2_iter_0: I, merge: F)
    where
        F: Fn(&mut A, A),
        I: Iterator<Item = Range<A>>,
        requires
            wf(old(self).rs()), wf(ranges2_iter_0.remaining()),
            ranges2_iter_0.obeys_prophetic_iter_laws(), ranges2_iter_0.decrease() is Some,
            forall|a: &mut A, b: A| merge.requires((a, b)),
        ensures
            post_m(old(self).rs(), ranges2_iter_0.remaining(), final(self).rs()),
    {
        let mut ranges2_iter = ranges2_iter_0; // R12
        broadcast use into_iter_seq_vec;
        broadcast use into_iter_seq_any;
        let ghost R1 = old(self).rs();
        let ghost R2 = ranges2_iter_0.remaining();
        let mut new_ranges: Vec<Range<A>> = vec![];
        let old_ranges = take(&mut self.ranges);

        let mut ranges1_iter = old_ranges.into_iter();

        let mut range1 = ranges1_iter.next();
        let mut range2 = ranges2_iter.next();

        proof { lemma_m_start(R1, R2); assert(new_ranges@ =~= Seq::<Range<A>>::empty()); }

        loop
            invariant_except_break
                inv_m(R1, R2, new_ranges@, range1, range2, ix(R1, ranges1_iter.remaining(), range1), ix(R2, ranges2_iter.remaining(), range2)),
            invariant
                ranges1_iter.remaining().len() <= R1.len(),
                ranges1_iter.remaining() =~= R1.skip(R1.len() - ranges1_iter.remaining().len()),
                range1 is None ==> ranges1_iter.remaining().len() == 0,
                ix(R1, ranges1_iter.remaining(), range1) >= 0,
                ranges2_iter.remaining().len() <= R2.len(),
                ranges2_iter.remaining() =~= R2.skip(R2.len() - ranges2_iter.remaining().len()),
                range2 is None ==> ranges2_iter.remaining().len() == 0,
                ix(R2, ranges2_iter.remaining(), range2) >= 0,
                ranges2_iter.obeys_prophetic_iter_laws(),
                ranges1_iter.decrease() is Some, ranges2_iter.decrease() is Some,
                forall|a: &mut A, b: A| merge.requires((a, b)),
            ensures
                post_m(R1, R2, new_ranges@),
            decreases
                2 * ((if range1 is Some { ranges1_iter.decrease().unwrap() + 1 } else { 0 })
                   + (if range2 is Some { ranges2_iter.decrease().unwrap() + 1 } else { 0 }))
                + b2i(range1 is Some && range2 is Some && range1.unwrap().start != range2.unwrap().start),
        {
            let ghost i1 = ix(R1, ranges1_iter.remaining(), range1);
            let ghost i2 = ix(R2, ranges2_iter.remaining(), range2);
            let ghost nr = new_ranges@;
            let ghost g1 = range1; let ghost g2 = range2;
            match (&mut range1, &mut range2) {
                (Some(ref mut range1_), Some(ref mut range2_)) => {
                    let ghost c1 = *range1_; let ghost c2 = *range2_;
                    if range1_.end < range2_.start {
                        // No overlap, range 1 comes first
                        new_ranges.push(range1_.clone());
                        proof {
                            let p = new_ranges@[new_ranges@.len() - 1];
                            assert(new_ranges@ =~= nr.push(p));
                            lemma_m_emit1(R1, R2, nr, c1, g2, p, i1, i2);
                        }
                        range1 = ranges1_iter.next();
                    } else if range2_.end < range1_.start {
                        // No overlap, range 2 comes first
                        new_ranges.push(range2_.clone());
                        proof {
                            let p = new_ranges@[new_ranges@.len() - 1];
                            assert(new_ranges@ =~= nr.push(p));
                            lemma_m_emit2(R1, R2, nr, g1, c2, p, i1, i2);
                        }
                        range2 = ranges2_iter.next();
                    } else {
                        let overlap =
                            max(range1_.start, range2_.start)..=min(range1_.end, range2_.end);

                        match range1_.start.cmp(&range2_.start) {
                            Ordering::Less => {
                                // Range 1 comes first
                                new_ranges.push(Range {
                                    start: range1_.start,
                                    end: *overlap.start() - 1,
                                    value: range1_.value.clone(),
                                });
                                range1_.start = *overlap.start();
                                proof {
                                    let p = new_ranges@[new_ranges@.len() - 1];
                                    assert(new_ranges@ =~= nr.push(p));
                                    lemma_m_left1(R1, R2, nr, c1, c2, p, *range1_, i1, i2);
                                }
                            }
                            Ordering::Greater => {
                                // Range 2 comes first
                                new_ranges.push(Range {
                                    start: range2_.start,
                                    end: *overlap.start() - 1,
                                    value: range2_.value.clone(),
                                });
                                range2_.start = *overlap.start();
                                proof {
                                    let p = new_ranges@[new_ranges@.len() - 1];
                                    assert(new_ranges@ =~= nr.push(p));
                                    lemma_m_left2(R1, R2, nr, c1, c2, p, *range2_, i1, i2);
                                }
                            }
                            Ordering::Equal => {
                                // Ranges start at the same point
                                let mut merged_value = range1_.value.clone();
                                merge(&mut merged_value, range2_.value.clone());
                                let merged_range = Range {
                                    start: *overlap.start(),
                                    end: *overlap.end(),
                                    value: merged_value,
                                };
                                new_ranges.push(merged_range);
                                let ghost p = new_ranges@[new_ranges@.len() - 1];
                                proof { assert(new_ranges@ =~= nr.push(p)); }

                                match range1_.end.cmp(&range2_.end) {
                                    Ordering::Less => {
                                        range1 = ranges1_iter.next();
                                        range2_.start = overlap.end() + 1;
                                        proof { lemma_m_common(R1, R2, nr, c1, c2, p, range1, Some(*range2_), i1 + 1, i2, i1, i2); }
                                    }
                                    Ordering::Greater => {
                                        range2 = ranges2_iter.next();
                                        range1_.start = overlap.end() + 1;
                                        proof { lemma_m_common(R1, R2, nr, c1, c2, p, Some(*range1_), range2, i1, i2 + 1, i1, i2); }
                                    }
                                    Ordering::Equal => {
                                        range1 = ranges1_iter.next();
                                        range2 = ranges2_iter.next();
                                        proof { lemma_m_common(R1, R2, nr, c1, c2, p, range1, range2, i1 + 1, i2 + 1, i1, i2); }
                                    }
                                }
                            }
                        }
                    }
                }
                (Some(range1_), None) => {
                    new_ranges.push(range1_.clone());
                    proof {
                        let p = new_ranges@[new_ranges@.len() - 1];
                        assert(new_ranges@ =~= nr.push(p));
                        lemma_m_rest1(R1, R2, nr, *range1_, p, i1, i2);
                        assert(ranges1_iter.remaining() =~= R1.skip(i1 + 1));
                    }
                    let ghost x0 = new_ranges@;
                    new_ranges.extend(ranges1_iter);
                    proof { broadcast use into_iter_seq_vec; assert(new_ranges@ =~= x0 + R1.skip(i1 + 1)); }
                    break;
                }
                (None, Some(range2_)) => {
                    new_ranges.push(range2_.clone());
                    proof {
                        let p = new_ranges@[new_ranges@.len() - 1];
                        assert(new_ranges@ =~= nr.push(p));
                        lemma_m_rest2(R1, R2, nr, *range2_, p, i1, i2);
                        assert(ranges2_iter.remaining() =~= R2.skip(i2 + 1));
                    }
                    let ghost x0 = new_ranges@;
                    new_ranges.extend(ranges2_iter);
                    proof { broadcast use into_iter_seq_any; assert(new_ranges@ =~= x0 + R2.skip(i2 + 1)); }
                    break;
                }
                (None, None) => { proof { lemma_m_done(R1, R2, nr, i1, i2); } break }
            }
        }

        self.ranges = new_ranges;
    }
}
}
fn main(){}
