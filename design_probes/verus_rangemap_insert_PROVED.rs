#![feature(allocator_api)]
use vstd::prelude::*;
use std::cmp::{max, min, Ordering};
use std::mem::take;
use vstd::std_specs::cmp::*;
use vstd::std_specs::iter::IteratorSpec;
use std::ops::RangeInclusive;
verus! {

pub assume_specification<T: Default> [std::mem::take::<T>] (x: &mut T) -> (r: T)
    ensures r == *old(x);
pub assume_specification<T: Ord> [std::cmp::max::<T>] (a: T, b: T) -> (r: T)
    ensures T::obeys_cmp_spec() ==> r == (if a.cmp_spec(&b) == Ordering::Greater { a } else { b });
pub assume_specification<T: Ord> [std::cmp::min::<T>] (a: T, b: T) -> (r: T)
    ensures T::obeys_cmp_spec() ==> r == (if a.cmp_spec(&b) == Ordering::Greater { b } else { a });
pub assume_specification<T> [RangeInclusive::<T>::start] (r: &RangeInclusive<T>) -> (s: &T)
    ensures *s == r@.start;
pub assume_specification<T> [RangeInclusive::<T>::end] (r: &RangeInclusive<T>) -> (s: &T)
    ensures *s == r@.end;
pub uninterp spec fn into_iter_seq<I: IntoIterator>(i: I) -> Seq<I::Item>;
pub assume_specification<T, A: std::alloc::Allocator, I: IntoIterator<Item = T>> [<Vec<T, A> as Extend<T>>::extend] (v: &mut Vec<T, A>, it: I)
    ensures final(v)@ == old(v)@ + into_iter_seq(it);
pub broadcast axiom fn into_iter_seq_vec<T>(i: std::vec::IntoIter<T>)
    ensures #[trigger] into_iter_seq(i) == i.remaining();

pub struct RangeMap<A> {
    ranges: Vec<Range<A>>,
}

pub struct Range<A> {
    pub start: u32,
    pub end: u32,
    pub value: A,
}
pub uninterp spec fn cloned_val<A>(a: A, b: A) -> bool;
impl<A: Clone> Clone for Range<A> {
    #[verifier::external_body]
    fn clone(&self) -> (c: Self)
        ensures c.start == self.start, c.end == self.end, cloned_val(self.value, c.value)
    { Range { start: self.start, end: self.end, value: self.value.clone() } }
}

pub open spec fn wf<A>(s: Seq<Range<A>>) -> bool {
    &&& forall|i: int| 0 <= i < s.len() ==> (#[trigger] s[i]).start <= s[i].end
    &&& forall|i: int, j: int| 0 <= i < j < s.len() ==> (#[trigger] s[i]).end < (#[trigger] s[j]).start
}
pub open spec fn covers<A>(s: Seq<Range<A>>, c: u32) -> bool {
    exists|i: int| 0 <= i < s.len() && (#[trigger] s[i]).start <= c <= s[i].end
}
impl<A> RangeMap<A> { pub closed spec fn rs(&self) -> Seq<Range<A>> { self.ranges@ } }

pub proof fn lemma_covers_push<A>(s: Seq<Range<A>>, r: Range<A>, c: u32)
    ensures covers(s.push(r), c) <==> (covers(s, c) || r.start <= c <= r.end)
{
    let t = s.push(r);
    if covers(t, c) {
        let i = choose|i: int| 0 <= i < t.len() && (#[trigger] t[i]).start <= c <= t[i].end;
        if i < s.len() { assert(s[i] == t[i]); }
    }
    if covers(s, c) {
        let i = choose|i: int| 0 <= i < s.len() && (#[trigger] s[i]).start <= c <= s[i].end;
        assert(t[i] == s[i]);
    }
    if r.start <= c <= r.end { assert(t[s.len() as int] == r); }
}

pub proof fn lemma_wf_push<A>(new: Seq<Range<A>>, p: Range<A>, f: int)
    requires wf(new), forall|k: int| 0 <= k < new.len() ==> (#[trigger] new[k]).end < f, f <= p.start <= p.end
    ensures wf(new.push(p))
{
    let t = new.push(p);
    assert forall|a: int, b: int| 0 <= a < b < t.len() implies (#[trigger] t[a]).end < (#[trigger] t[b]).start by {
        if b < new.len() { assert(t[a] == new[a] && t[b] == new[b]); } else { assert(t[a] == new[a]); }
    }
    assert forall|a: int| 0 <= a < t.len() implies (#[trigger] t[a]).start <= t[a].end by { if a < new.len() { assert(t[a] == new[a]); } }
}

pub proof fn lemma_covers_concat<A>(a: Seq<Range<A>>, b: Seq<Range<A>>, c: u32)
    ensures covers(a + b, c) <==> (covers(a, c) || covers(b, c))
{
    let t = a + b;
    if covers(t, c) {
        let i = choose|i: int| 0 <= i < t.len() && (#[trigger] t[i]).start <= c <= t[i].end;
        if i < a.len() { assert(a[i] == t[i]); } else { assert(b[i - a.len()] == t[i]); }
    }
    if covers(a, c) {
        let i = choose|i: int| 0 <= i < a.len() && (#[trigger] a[i]).start <= c <= a[i].end;
        assert(t[i] == a[i]);
    }
    if covers(b, c) {
        let i = choose|i: int| 0 <= i < b.len() && (#[trigger] b[i]).start <= c <= b[i].end;
        assert(t[i + a.len()] == b[i]);
    }
}


// ---------------------------------------------------------------------------------------------
// insert: R old ranges, k of them consumed, new = output so far, [ns0, ne] the inserted range,
// ns = the part of it not yet emitted starts here
#[verifier::opaque]
pub open spec fn inv_ins<A>(R: Seq<Range<A>>, new: Seq<Range<A>>, k: int, ns0: u32, ns: u32, ne: u32) -> bool {
    &&& wf(R) && wf(new) && 0 <= k <= R.len() && ns0 <= ns <= ne
    &&& forall|t: int| 0 <= t < new.len() ==> (#[trigger] new[t]).end < ns
    &&& forall|t: int| 0 <= t < k ==> (#[trigger] R[t]).end < ns
    &&& k < R.len() ==> forall|t: int| 0 <= t < new.len() ==> (#[trigger] new[t]).end < R[k].start
    &&& forall|x: u32| #[trigger] covers(new, x) <==> (covers(R.take(k), x) || ns0 <= x < ns)
}
// new extends nr by pieces that tile exactly [lo, hi]
#[verifier::opaque]
pub open spec fn ext<A>(nr: Seq<Range<A>>, new: Seq<Range<A>>, lo: u32, hi: u32) -> bool {
    &&& wf(new) && lo <= hi
    &&& forall|t: int| 0 <= t < new.len() ==> (#[trigger] new[t]).end <= hi
    &&& forall|x: u32| #[trigger] covers(new, x) <==> (covers(nr, x) || lo <= x <= hi)
}
pub open spec fn post_ins<A>(R: Seq<Range<A>>, fin: Seq<Range<A>>, ns0: u32, ne: u32) -> bool {
    wf(fin) && forall|x: u32| #[trigger] covers(fin, x) <==> (covers(R, x) || ns0 <= x <= ne)
}

pub proof fn lemma_ins_start<A>(R: Seq<Range<A>>, ns0: u32, ne: u32)
    requires wf(R), ns0 <= ne
    ensures inv_ins(R, Seq::<Range<A>>::empty(), 0, ns0, ns0, ne)
{
    reveal(inv_ins);
    assert(R.take(0) =~= Seq::<Range<A>>::empty());
}
pub proof fn lemma_take_push<A>(R: Seq<Range<A>>, k: int, x: u32)
    requires 0 <= k < R.len()
    ensures covers(R.take(k + 1), x) <==> (covers(R.take(k), x) || R[k].start <= x <= R[k].end)
{
    assert(R.take(k + 1) =~= R.take(k).push(R[k]));
    lemma_covers_push(R.take(k), R[k], x);
}
// old range entirely before the inserted one: copy it
pub proof fn lemma_ins_copy<A>(R: Seq<Range<A>>, new: Seq<Range<A>>, k: int, ns0: u32, ns: u32, ne: u32)
    requires inv_ins(R, new, k, ns0, ns, ne), k < R.len(), R[k].end < ns
    ensures inv_ins(R, new.push(R[k]), k + 1, ns0, ns, ne)
{
    reveal(inv_ins);
    let t = new.push(R[k]);
    lemma_wf_push(new, R[k], R[k].start as int);
    assert forall|a: int| 0 <= a < t.len() implies (#[trigger] t[a]).end < ns by { if a < new.len() { assert(t[a] == new[a]); } }
    if k + 1 < R.len() {
        assert(R[k].end < R[k + 1].start);
        assert forall|a: int| 0 <= a < t.len() implies (#[trigger] t[a]).end < R[k + 1].start by { if a < new.len() { assert(t[a] == new[a]); } }
    }
    assert forall|x: u32| #[trigger] covers(t, x) <==> (covers(R.take(k + 1), x) || ns0 <= x < ns) by {
        lemma_covers_push(new, R[k], x); lemma_take_push(R, k, x);
    }
}
pub proof fn lemma_ext_first<A>(nr: Seq<Range<A>>, p: Range<A>, f: int)
    requires wf(nr), forall|t: int| 0 <= t < nr.len() ==> (#[trigger] nr[t]).end < f, f <= p.start <= p.end
    ensures ext(nr, nr.push(p), p.start, p.end)
{
    reveal(ext);
    let t = nr.push(p);
    lemma_wf_push(nr, p, f);
    assert forall|a: int| 0 <= a < t.len() implies (#[trigger] t[a]).end <= p.end by { if a < nr.len() { assert(t[a] == nr[a]); } }
    assert forall|x: u32| #[trigger] covers(t, x) <==> (covers(nr, x) || p.start <= x <= p.end) by { lemma_covers_push(nr, p, x); }
}
pub proof fn lemma_ext_next<A>(nr: Seq<Range<A>>, new: Seq<Range<A>>, p: Range<A>, lo: u32, hi: u32)
    requires ext(nr, new, lo, hi), p.start == hi + 1, p.start <= p.end
    ensures ext(nr, new.push(p), lo, p.end)
{
    reveal(ext);
    let t = new.push(p);
    lemma_wf_push(new, p, p.start as int);
    assert forall|a: int| 0 <= a < t.len() implies (#[trigger] t[a]).end <= p.end by { if a < new.len() { assert(t[a] == new[a]); } }
    assert forall|x: u32| #[trigger] covers(t, x) <==> (covers(nr, x) || lo <= x <= p.end) by { lemma_covers_push(new, p, x); }
}
// the inserted range continues past R[k]: go on with the rest of it
pub proof fn lemma_ins_continue<A>(R: Seq<Range<A>>, nr: Seq<Range<A>>, new: Seq<Range<A>>, k: int, ns0: u32, ns: u32, ne: u32, lo: u32)
    requires inv_ins(R, nr, k, ns0, ns, ne), k < R.len(), ns <= R[k].end, R[k].start <= ne, R[k].end < ne,
        lo == (if ns <= R[k].start { ns } else { R[k].start }), ext(nr, new, lo, R[k].end)
    ensures inv_ins(R, new, k + 1, ns0, (R[k].end + 1) as u32, ne)
{
    reveal(inv_ins); reveal(ext);
    let ns2 = (R[k].end + 1) as u32;
    if k + 1 < R.len() { assert(R[k].end < R[k + 1].start); }
    assert forall|x: u32| #[trigger] covers(new, x) <==> (covers(R.take(k + 1), x) || ns0 <= x < ns2) by {
        lemma_take_push(R, k, x);
        assert(covers(nr, x) <==> (covers(R.take(k), x) || ns0 <= x < ns));
    }
}
// everything of the inserted range has been emitted: append the untouched rest
pub proof fn lemma_ins_finish<A>(R: Seq<Range<A>>, nr: Seq<Range<A>>, new: Seq<Range<A>>, k: int, ns0: u32, ns: u32, ne: u32, lo: u32, hi: u32, consumed: int)
    requires inv_ins(R, nr, k, ns0, ns, ne), ext(nr, new, lo, hi), k <= consumed <= R.len(), consumed <= k + 1,
        // either R[k] was not consumed (new range lies before it) or it was merged
        consumed == k ==> (lo == ns && hi == ne && (k < R.len() ==> ne < R[k].start)),
        consumed == k + 1 ==> (k < R.len() && ns <= R[k].end && R[k].start <= ne && ne <= R[k].end
            && lo == (if ns <= R[k].start { ns } else { R[k].start }) && hi == R[k].end),
    ensures post_ins(R, new + R.skip(consumed), ns0, ne)
{
    reveal(inv_ins); reveal(ext);
    let rest = R.skip(consumed); let fin = new + rest;
    assert(wf(fin)) by {
        assert forall|a: int, b: int| 0 <= a < b < fin.len() implies (#[trigger] fin[a]).end < (#[trigger] fin[b]).start by {
            if b < new.len() { assert(fin[a] == new[a] && fin[b] == new[b]); }
            else {
                assert(fin[b] == R[consumed + (b - new.len())]);
                if a < new.len() {
                    assert(fin[a] == new[a]);
                    if consumed == k + 1 { assert(R[k].end < R[consumed + (b - new.len())].start); }
                    else { if consumed + (b - new.len()) > k { assert(R[k].end < R[consumed + (b - new.len())].start); } }
                } else { assert(fin[a] == R[consumed + (a - new.len())]); }
            }
        }
        assert forall|a: int| 0 <= a < fin.len() implies (#[trigger] fin[a]).start <= fin[a].end by {
            if a < new.len() { assert(fin[a] == new[a]); } else { assert(fin[a] == R[consumed + (a - new.len())]); }
        }
    }
    assert forall|x: u32| #[trigger] covers(fin, x) <==> (covers(R, x) || ns0 <= x <= ne) by {
        lemma_covers_concat(new, rest, x);
        assert(R =~= R.take(consumed) + rest);
        lemma_covers_concat(R.take(consumed), rest, x);
        if consumed == k + 1 { lemma_take_push(R, k, x); }
        assert(covers(nr, x) <==> (covers(R.take(k), x) || ns0 <= x < ns));
    }
}

pub proof fn lemma_ext_first_ins<A>(R: Seq<Range<A>>, nr: Seq<Range<A>>, k: int, ns0: u32, ns: u32, ne: u32, p: Range<A>)
    requires inv_ins(R, nr, k, ns0, ns, ne), p.start <= p.end,
        p.start == ns || (k < R.len() && p.start == R[k].start && p.start <= ns),
        k < R.len() ==> p.start <= R[k].start || p.start == ns && ns <= R[k].start,
        k < R.len() && p.start == ns ==> ns <= R[k].start,
    ensures ext(nr, nr.push(p), p.start, p.end)
{
    reveal(inv_ins);
    lemma_ext_first(nr, p, p.start as int);
}
pub proof fn lemma_ins_last<A>(R: Seq<Range<A>>, new: Seq<Range<A>>, k: int, ns0: u32, ns: u32, ne: u32)
    requires inv_ins(R, new, k, ns0, ns, ne)
    ensures new.len() > 0 ==> new[new.len() - 1].end < ns
{
    reveal(inv_ins);
}

impl<A: Clone> RangeMap<A> {
    /// O(n) where n is the number of existing ranges in the map
    pub fn insert<F>(&mut self, new_range_start_0: u32, new_range_end: u32, value: A, merge: F)
    where
        F: Fn(&mut A, A),
        requires
            wf(old(self).rs()),
            old(self).rs().len() + 2 <= usize::MAX,
            new_range_start_0 <= new_range_end,
            forall|a: &mut A, b: A| merge.requires((a, b)),
        ensures
            post_ins(old(self).rs(), final(self).rs(), new_range_start_0, new_range_end),
    {
        let mut new_range_start = new_range_start_0; // R12
        broadcast use into_iter_seq_vec;
        let ghost R = old(self).rs();
        let ghost ns0 = new_range_start_0;
        let old_ranges = take(&mut self.ranges);
        let mut new_ranges = Vec::with_capacity(old_ranges.len() + 2);

        let mut range_iter = old_ranges.into_iter();
        proof { lemma_ins_start(R, ns0, new_range_end); assert(new_ranges@ =~= Seq::<Range<A>>::empty()); }

        while let Some(range) = range_iter.next()
            invariant
                range_iter.remaining().len() <= R.len(),
                range_iter.remaining() =~= R.skip(R.len() - range_iter.remaining().len()),
                inv_ins(R, new_ranges@, R.len() - range_iter.remaining().len(), ns0, new_range_start, new_range_end),
                forall|a: &mut A, b: A| merge.requires((a, b)),
                range_iter.decrease() is Some,
                wf(R), ns0 <= new_range_start <= new_range_end, R == old(self).rs(), ns0 == new_range_start_0,
            ensures
                range_iter.remaining().len() == 0,
                inv_ins(R, new_ranges@, R.len() as int, ns0, new_range_start, new_range_end),
            decreases range_iter.decrease().unwrap(),
        {
            let ghost k = R.len() - range_iter.remaining().len() - 1;
            let ghost nr = new_ranges@;
            let ghost ns = new_range_start;
            proof { assert(range == R[k]); broadcast use into_iter_seq_vec; }
            if range.end < new_range_start {
                new_ranges.push(range);
                proof { lemma_ins_copy(R, nr, k, ns0, ns, new_range_end); }
            } else if range.start > new_range_end {
                new_ranges.push(Range {
                    start: new_range_start,
                    end: new_range_end,
                    value,
                });
                proof {
                    let p = new_ranges@[new_ranges@.len() - 1];
                    assert(new_ranges@ =~= nr.push(p));
                    lemma_ext_first_ins(R, nr, k, ns0, ns, new_range_end, p);
                    lemma_ins_finish(R, nr, new_ranges@, k, ns0, ns, new_range_end, ns, new_range_end, k);
                    assert(new_ranges@.push(range) + range_iter.remaining() =~= new_ranges@ + R.skip(k));
                }
                let ghost x0 = new_ranges@;
                let ghost rem0 = range_iter.remaining();
                new_ranges.push(range);
                new_ranges.extend(range_iter);
                proof { assert(rem0 =~= R.skip(k + 1)); assert(new_ranges@ =~= x0 + R.skip(k)); }
                self.ranges = new_ranges;
                return;
            } else {
                let overlap = max(new_range_start, range.start)..=min(new_range_end, range.end);
                let ghost lo = if ns <= range.start { ns } else { range.start };

                // (1)
                if new_range_start < *overlap.start() {
                    new_ranges.push(Range {
                        start: new_range_start,
                        end: *overlap.start() - 1,
                        value: value.clone(),
                    });
                    proof {
                        let p = new_ranges@[new_ranges@.len() - 1];
                        assert(new_ranges@ =~= nr.push(p));
                        lemma_ext_first_ins(R, nr, k, ns0, ns, new_range_end, p);
                    }
                }
                // (2)
                else if range.start < *overlap.start() {
                    new_ranges.push(Range {
                        start: range.start,
                        end: overlap.start() - 1,
                        value: range.value.clone(),
                    });
                    proof {
                        let p = new_ranges@[new_ranges@.len() - 1];
                        assert(new_ranges@ =~= nr.push(p));
                        lemma_ext_first_ins(R, nr, k, ns0, ns, new_range_end, p);
                    }
                }
                let ghost mid = new_ranges@;

                // (3)
                let mut overlap_values = range.value.clone();
                merge(&mut overlap_values, value.clone());
                new_ranges.push(Range {
                    start: *overlap.start(),
                    end: *overlap.end(),
                    value: overlap_values,
                });
                proof {
                    let p = new_ranges@[new_ranges@.len() - 1];
                    assert(new_ranges@ =~= mid.push(p));
                    if mid.len() == nr.len() { assert(mid =~= nr); lemma_ext_first_ins(R, nr, k, ns0, ns, new_range_end, p); }
                    else { lemma_ext_next(nr, mid, p, lo, (p.start - 1) as u32); }
                }

                // (4)
                if range.end > *overlap.end() {
                    let ghost mid2 = new_ranges@;
                    new_ranges.push(Range {
                        start: *overlap.end() + 1,
                        end: range.end,
                        value: range.value,
                    });
                    proof {
                        let p = new_ranges@[new_ranges@.len() - 1];
                        assert(new_ranges@ =~= mid2.push(p));
                        lemma_ext_next(nr, mid2, p, lo, (p.start - 1) as u32);
                    }
                }
                // (5)
                else if new_range_end > *overlap.end() {
                    new_range_start = *overlap.end() + 1;
                    proof { lemma_ins_continue(R, nr, new_ranges@, k, ns0, ns, new_range_end, lo); }
                    continue;
                }

                proof {
                    lemma_ins_finish(R, nr, new_ranges@, k, ns0, ns, new_range_end, lo, R[k].end, k + 1);
                    assert(range_iter.remaining() =~= R.skip(k + 1));
                }
                let ghost x0 = new_ranges@;
                new_ranges.extend(range_iter);
                proof { assert(new_ranges@ =~= x0 + R.skip(k + 1)); }
                self.ranges = new_ranges;
                return;
            }
        }

        proof { lemma_ins_last(R, new_ranges@, R.len() as int, ns0, new_range_start, new_range_end); }
        let push_new_range = match new_ranges.last() {
            None => true,
            Some(last_range) => last_range.end < new_range_start,
        };
        let ghost nr = new_ranges@;

        if push_new_range {
            new_ranges.push(Range {
                start: new_range_start,
                end: new_range_end,
                value,
            });
        }
        proof {
            let p = new_ranges@[new_ranges@.len() - 1];
            assert(new_ranges@ =~= nr.push(p));
            lemma_ext_first_ins(R, nr, R.len() as int, ns0, new_range_start, new_range_end, p);
            lemma_ins_finish(R, nr, new_ranges@, R.len() as int, ns0, new_range_start, new_range_end, new_range_start, new_range_end, R.len() as int);
            assert(new_ranges@ + R.skip(R.len() as int) =~= new_ranges@);
        }

        self.ranges = new_ranges;
    }
}
}
fn main(){}
