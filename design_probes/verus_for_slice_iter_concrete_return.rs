use vstd::prelude::*;
use vstd::std_specs::iter::IteratorSpec;
verus! {
pub struct Range<A> { pub start: u32, pub end: u32, pub value: A }
pub struct RangeMap<A> { ranges: Vec<Range<A>> }
impl<A> RangeMap<A> {
    pub closed spec fn rs(&self) -> Seq<Range<A>> { self.ranges@ }
    pub fn iter(&self) -> (r: std::slice::Iter<'_, Range<A>>)
        ensures r.remaining().len() == self.rs().len(),
            forall|i: int| 0 <= i < self.rs().len() ==> *(#[trigger] r.remaining()[i]) == self.rs()[i],
            r.obeys_prophetic_iter_laws(), r.decrease() is Some,
    { self.ranges.iter() }
}
fn a(rm: &RangeMap<usize>, wl: &mut Vec<(usize, bool)>, b: bool)
    ensures final(wl)@.len() == old(wl)@.len() + rm.rs().len()
{
    for r in it2: rm.iter()
        invariant wl@.len() == old(wl)@.len() + it2.index@,
    {
        wl.push((r.value, b));
    }
}
}
fn main(){}
