#[path = "/repo/crates/lexgen/src/char_ranges.rs"]
#[allow(dead_code)]
mod char_ranges;

fn in_table(t: &[(u32, u32)], c: u32) -> bool {
    // binary search, log2(len) iterations
    let mut lo = 0usize; let mut hi = t.len();
    while lo < hi {
        let m = lo + (hi - lo) / 2;
        if c < t[m].0 { hi = m } else if c > t[m].1 { lo = m + 1 } else { return true }
    }
    false
}

#[cfg(kani)]
#[kani::proof]
#[kani::unwind(80)]
fn check_alpha() {
    let c: char = kani::any();
    assert!(in_table(&char_ranges::ALPHABETIC, c as u32) == c.is_alphabetic());
}
#[cfg(kani)]
#[kani::proof]
#[kani::unwind(12)]
fn check_ascii_digit() {
    let c: char = kani::any();
    assert!(in_table(&char_ranges::ASCII_DIGIT, c as u32) == c.is_ascii_digit());
}
