use vstd::prelude::*;
use std::collections::HashMap;
use std::collections::hash_map::Entry;
verus! {
fn f(visited: &mut HashMap<usize, bool>, state: usize, backtrack: bool) -> (changed: bool)
  ensures
     changed ==> final(visited)@ == old(visited)@.insert(state, backtrack),
     !changed ==> final(visited)@ == old(visited)@ && old(visited)@.contains_key(state) && old(visited)@[state] == backtrack,
     changed ==> !(old(visited)@.contains_key(state) && old(visited)@[state] == backtrack),
{
    match visited.entry(state) {
        Entry::Occupied(mut entry) => {
            if *entry.get() == backtrack {
                return false;
            }
            entry.insert(backtrack);
        }
        Entry::Vacant(entry) => {
            entry.insert(backtrack);
        }
    }
    true
}
}
fn main(){}
