use vstd::prelude::*;
use vstd::std_specs::iter::IteratorSpec;
verus! {
fn g<I: Iterator<Item = u32>>(mut it: I)
  requires it.obeys_prophetic_iter_laws()
{
    let ghost s = it.remaining();
    let x = it.next();
    assert(s.len() > 0 ==> x == Some(s[0]));
    assert(s.len() > 0 ==> it.remaining() == s.skip(1));
    assert(s.len() == 0 ==> x.is_none());
}
fn h<I: Iterator<Item = u32>>(it: I, v: &mut Vec<u32>)
  requires it.obeys_prophetic_iter_laws()
  ensures final(v)@ == old(v)@ + it.remaining()
{
    v.extend(it);
}
}
fn main(){}
