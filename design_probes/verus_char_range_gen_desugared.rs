use vstd::prelude::*;
use std::convert::TryFrom;
verus! {
#[verifier::external_type_specification]
#[verifier::external_body]
pub struct ExCharTryFromError(std::char::CharTryFromError);

pub open spec fn is_scalar(i: u32) -> bool { i <= 0xD7FF || (0xE000 <= i && i <= 0x10FFFF) }

pub assume_specification [<char as TryFrom<u32>>::try_from] (i: u32) -> (r: Result<char, <char as TryFrom<u32>>::Error>)
    ensures is_scalar(i) ==> (r matches Ok(c) && c as u32 == i),
            !is_scalar(i) ==> r is Err;

fn generate_char_fn_ranges(f: impl Fn(char) -> bool) -> (ranges: Vec<(u32, u32)>)
    requires forall|c: char| f.requires((c,)),
{
    let mut ranges: Vec<(u32, u32)> = vec![];
    let mut current_range_start: Option<u32> = None;

    let mut it: u32 = 0; let hi: u32 = u32::from('\u{10FFFF}'); let mut done = false;
    while !done && it <= hi
        invariant hi == 0x10FFFF, it <= hi, forall|c: char| f.requires((c,)),
           current_range_start matches Some(s) ==> s <= it,
        decreases (hi - it) + (if done {0int} else {1int})
    {
        let i = it;
        if it == hi { done = true; } else { it += 1; }
        let c = match char::try_from(i) {
            Err(_) => continue,
            Ok(c) => c,
        };

        if f(c) {
            if current_range_start.is_none() {
                current_range_start = Some(i);
            }
        } else if let Some(current_range_start) = current_range_start.take() {
            ranges.push((current_range_start, i - 1));
        }
    }

    ranges
}
}
fn main(){}
