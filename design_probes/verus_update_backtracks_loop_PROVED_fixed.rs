use vstd::prelude::*;
use std::collections::{HashMap, HashSet};
use std::collections::hash_map::Entry;
use vstd::std_specs::iter::IteratorSpec;
use vstd::std_specs::hash::*;
verus! {
pub type Set_<T> = HashSet<T>;
pub type Map_<K, V> = HashMap<K, V>;

pub broadcast axiom fn axiom_char_key_model() ensures #[trigger] obeys_key_model::<char>();
pub broadcast axiom fn axiom_stateidx_key_model() ensures #[trigger] obeys_key_model::<StateIdx>();

pub struct Range<A> { pub start: u32, pub end: u32, pub value: A }
pub struct RangeMap<A> { ranges: Vec<Range<A>> }
impl<A> RangeMap<A> {
    pub closed spec fn rs(&self) -> Seq<Range<A>> { self.ranges@ }
    pub fn iter(&self) -> (r: std::slice::Iter<'_, Range<A>>)
        ensures r.remaining().len() == self.rs().len(),
            forall|i: int| 0 <= i < self.rs().len() ==> *(#[trigger] r.remaining()[i]) == self.rs()[i],
            r.obeys_prophetic_iter_laws(), r.decrease() is Some,
    { self.ranges.iter() }
}
#[derive(Clone, Copy)]
pub struct RightCtxIdx(usize);
#[derive(Clone, Copy)]
pub struct AcceptingState<A> { pub value: A, pub right_ctx: Option<RightCtxIdx> }

pub struct DFA<T, A> { states: Vec<State<T, A>> }
#[derive(Clone, Copy, PartialEq, Eq, Hash)]
pub struct StateIdx(usize);
pub struct State<T, A> {
    initial: bool,
    char_transitions: Map_<char, T>,
    range_transitions: RangeMap<T>,
    any_transition: Option<T>,
    end_of_input_transition: Option<T>,
    accepting: Vec<AcceptingState<A>>,
    predecessors: Set_<StateIdx>,
    backtrack: bool,
}
impl StateIdx {
    pub closed spec fn ix(self) -> int { self.0 as int }
    pub closed spec fn of(i: int) -> StateIdx { StateIdx(i as usize) }
}
impl<A> DFA<StateIdx, A> {
    pub closed spec fn n(&self) -> int { self.states.len() as int }
    pub closed spec fn acc(&self, s: int) -> bool { self.states@[s].accepting@.len() > 0 }
    pub closed spec fn init(&self, s: int) -> bool { self.states@[s].initial }
    pub closed spec fn wf_dfa(&self) -> bool {
        forall|s: int, t: StateIdx| 0 <= s < self.n() && #[trigger] self.is_succ(s, t) ==> 0 <= t.ix() < self.n()
    }
    pub closed spec fn is_succ(&self, s: int, t: StateIdx) -> bool {
        let st = self.states@[s];
        ||| exists|c: char| st.char_transitions@.contains_key(c) && st.char_transitions@[c] == t
        ||| exists|k: int| 0 <= k < st.range_transitions.rs().len() && st.range_transitions.rs()[k].value == t
        ||| st.any_transition == Some(t)
        ||| st.end_of_input_transition == Some(t)
    }
    pub fn is_accepting_state(&self, state: StateIdx) -> (r: bool)
        requires 0 <= state.ix() < self.n()
        ensures r == self.acc(state.ix())
    {
        !self.states[state.0].accepting.is_empty()
    }
}

pub open spec fn in_wl(wl: Seq<(StateIdx, bool)>, e: (StateIdx, bool)) -> bool { exists|i: int| 0 <= i < wl.len() && #[trigger] wl[i] == e }
pub proof fn lemma_in_wl_push(wl: Seq<(StateIdx, bool)>, x: (StateIdx, bool), e: (StateIdx, bool))
    ensures in_wl(wl, e) ==> in_wl(wl.push(x), e), in_wl(wl.push(x), x)
{
    if in_wl(wl, e) { let i = choose|i: int| 0 <= i < wl.len() && #[trigger] wl[i] == e; assert(wl.push(x)[i] == e); }
    assert(wl.push(x)[wl.len() as int] == x);
}

pub open spec fn hit(e: (StateIdx, bool), t: StateIdx, b: bool) -> bool { e.0 == t && (b ==> e.1) }
pub open spec fn covered(wl: Seq<(StateIdx, bool)>, vis: Map<StateIdx, bool>, t: StateIdx, b: bool) -> bool {
    ||| vis.contains_key(t) && (b ==> vis[t])
    ||| exists|i: int| 0 <= i < wl.len() && hit(#[trigger] wl[i], t, b)
}
pub open spec fn eff<A>(dfa: &DFA<StateIdx, A>, vis: Map<StateIdx, bool>, s: StateIdx) -> bool { vis[s] || dfa.acc(s.ix()) }

#[verifier::opaque]
pub open spec fn inv_bt<A>(dfa: &DFA<StateIdx, A>, wl: Seq<(StateIdx, bool)>, vis: Map<StateIdx, bool>, skip: Option<StateIdx>) -> bool {
    &&& dfa.wf_dfa()
    &&& forall|i: int| 0 <= i < wl.len() ==> 0 <= (#[trigger] wl[i]).0.ix() < dfa.n()
    &&& forall|s: StateIdx| #[trigger] vis.contains_key(s) ==> 0 <= s.ix() < dfa.n()
    &&& forall|s: StateIdx, t: StateIdx| vis.contains_key(s) && Some(s) != skip && #[trigger] dfa.is_succ(s.ix(), t) ==> covered(wl, vis, t, eff(dfa, vis, s))
    &&& forall|s: int| 0 <= s < dfa.n() && #[trigger] dfa.init(s) ==> covered(wl, vis, StateIdx::of(s), false)
}

pub proof fn lemma_covered_mono(wl: Seq<(StateIdx, bool)>, vis: Map<StateIdx, bool>, x: (StateIdx, bool), t: StateIdx, b: bool)
    requires covered(wl, vis, t, b)
    ensures covered(wl.push(x), vis, t, b)
{
    if !(vis.contains_key(t) && (b ==> vis[t])) {
        let i = choose|i: int| 0 <= i < wl.len() && hit(#[trigger] wl[i], t, b);
        assert(wl.push(x)[i] == wl[i]);
    }
}
// adding an entry never hurts
pub proof fn lemma_bt_push<A>(dfa: &DFA<StateIdx, A>, wl: Seq<(StateIdx, bool)>, vis: Map<StateIdx, bool>, skip: Option<StateIdx>, x: (StateIdx, bool))
    requires inv_bt(dfa, wl, vis, skip), 0 <= x.0.ix() < dfa.n()
    ensures inv_bt(dfa, wl.push(x), vis, skip)
{
    reveal(inv_bt);
    let w2 = wl.push(x);
    assert forall|i: int| 0 <= i < w2.len() implies 0 <= (#[trigger] w2[i]).0.ix() < dfa.n() by { if i < wl.len() { assert(w2[i] == wl[i]); } }
    assert forall|s: StateIdx, t: StateIdx| vis.contains_key(s) && Some(s) != skip && #[trigger] dfa.is_succ(s.ix(), t) implies covered(w2, vis, t, eff(dfa, vis, s)) by {
        lemma_covered_mono(wl, vis, x, t, eff(dfa, vis, s));
    }
    assert forall|s: int| 0 <= s < dfa.n() && #[trigger] dfa.init(s) implies covered(w2, vis, StateIdx::of(s), false) by {
        lemma_covered_mono(wl, vis, x, StateIdx::of(s), false);
    }
}
pub proof fn lemma_bt_last<A>(dfa: &DFA<StateIdx, A>, wl: Seq<(StateIdx, bool)>, vis: Map<StateIdx, bool>, skip: Option<StateIdx>)
    requires inv_bt(dfa, wl, vis, skip), wl.len() > 0
    ensures 0 <= wl[wl.len() - 1].0.ix() < dfa.n()
{
    reveal(inv_bt);
}
// popped entry adds nothing new
pub proof fn lemma_bt_skip<A>(dfa: &DFA<StateIdx, A>, wl: Seq<(StateIdx, bool)>, vis: Map<StateIdx, bool>, state: StateIdx, bt: bool)
    requires inv_bt(dfa, wl.push((state, bt)), vis, None), vis.contains_key(state), vis[state] || !bt
    ensures inv_bt(dfa, wl, vis, None)
{
    reveal(inv_bt);
    let w1 = wl.push((state, bt));
    assert forall|i: int| 0 <= i < wl.len() implies 0 <= (#[trigger] wl[i]).0.ix() < dfa.n() by { assert(w1[i] == wl[i]); }
    assert forall|t: StateIdx, b: bool| covered(w1, vis, t, b) implies covered(wl, vis, t, b) by {
        if !(vis.contains_key(t) && (b ==> vis[t])) {
            let i = choose|i: int| 0 <= i < w1.len() && hit(#[trigger] w1[i], t, b);
            if i < wl.len() { assert(w1[i] == wl[i]); } else { assert(w1[i] == (state, bt)); }
        }
    }
}
pub open spec fn rank(vis: Map<StateIdx, bool>, s: StateIdx) -> int { if !vis.contains_key(s) { 2 } else if !vis[s] { 1 } else { 0 } }
pub open spec fn deficit(vis: Map<StateIdx, bool>, n: int) -> int decreases n {
    if n <= 0 { 0 } else { deficit(vis, n - 1) + rank(vis, StateIdx::of(n - 1)) }
}
pub proof fn lemma_of_ix(s: StateIdx)
    ensures StateIdx::of(s.ix()) == s
{
}
pub proof fn lemma_ix_of(i: int)
    requires 0 <= i <= usize::MAX
    ensures StateIdx::of(i).ix() == i
{
}
pub proof fn lemma_deficit_nonneg(vis: Map<StateIdx, bool>, n: int)
    ensures deficit(vis, n) >= 0
    decreases n
{
    if n > 0 { lemma_deficit_nonneg(vis, n - 1); }
}
pub proof fn lemma_deficit_update(vis: Map<StateIdx, bool>, n: int, state: StateIdx, bt: bool)
    requires 0 <= n <= usize::MAX, rank(vis.insert(state, bt), state) < rank(vis, state)
    ensures
        state.ix() < n ==> deficit(vis.insert(state, bt), n) < deficit(vis, n),
        state.ix() >= n ==> deficit(vis.insert(state, bt), n) == deficit(vis, n),
    decreases n
{
    if n > 0 {
        lemma_deficit_update(vis, n - 1, state, bt);
        let s = StateIdx::of(n - 1);
        lemma_ix_of(n - 1);
        if s == state { } else { assert(vis.insert(state, bt).contains_key(s) == vis.contains_key(s)); }
        lemma_of_ix(state);
    }
}
pub proof fn lemma_n_bound<A>(dfa: &DFA<StateIdx, A>)
    ensures 0 <= dfa.n() <= usize::MAX
{
}
// the popped entry raises the rank of `state`; its successors are not yet covered
pub proof fn lemma_bt_update<A>(dfa: &DFA<StateIdx, A>, wl: Seq<(StateIdx, bool)>, vis: Map<StateIdx, bool>, state: StateIdx, bt: bool)
    requires inv_bt(dfa, wl.push((state, bt)), vis, None), !(vis.contains_key(state) && (vis[state] || !bt))
    ensures inv_bt(dfa, wl, vis.insert(state, bt), Some(state)),
        deficit(vis.insert(state, bt), dfa.n()) < deficit(vis, dfa.n()),
{
    reveal(inv_bt);
    let w1 = wl.push((state, bt)); let v2 = vis.insert(state, bt);
    assert(w1[wl.len() as int] == (state, bt));
    assert(0 <= state.ix() < dfa.n());
    lemma_n_bound(dfa);
    lemma_deficit_update(vis, dfa.n(), state, bt);
    assert forall|i: int| 0 <= i < wl.len() implies 0 <= (#[trigger] wl[i]).0.ix() < dfa.n() by { assert(w1[i] == wl[i]); }
    assert forall|t: StateIdx, b: bool| covered(w1, vis, t, b) implies covered(wl, v2, t, b) by {
        if vis.contains_key(t) && (b ==> vis[t]) {
            if t == state { }
        } else {
            let i = choose|i: int| 0 <= i < w1.len() && hit(#[trigger] w1[i], t, b);
            if i < wl.len() { assert(w1[i] == wl[i]); } else { assert(w1[i] == (state, bt)); }
        }
    }
    assert forall|s: StateIdx, t: StateIdx| v2.contains_key(s) && Some(s) != Some(state) && #[trigger] dfa.is_succ(s.ix(), t) implies covered(wl, v2, t, eff(dfa, v2, s)) by {
        assert(vis.contains_key(s));
        assert(eff(dfa, v2, s) == eff(dfa, vis, s));
    }
}
pub proof fn lemma_bt_close<A>(dfa: &DFA<StateIdx, A>, wl: Seq<(StateIdx, bool)>, vis: Map<StateIdx, bool>, state: StateIdx, sb: bool)
    requires inv_bt(dfa, wl, vis, Some(state)), vis.contains_key(state), sb == eff(dfa, vis, state),
        forall|t: StateIdx| #[trigger] dfa.is_succ(state.ix(), t) ==> in_wl(wl, (t, sb))
    ensures inv_bt(dfa, wl, vis, None)
{
    reveal(inv_bt);
    assert forall|s: StateIdx, t: StateIdx| vis.contains_key(s) && #[trigger] dfa.is_succ(s.ix(), t) implies covered(wl, vis, t, eff(dfa, vis, s)) by {
        if s == state {
            let i = choose|i: int| 0 <= i < wl.len() && #[trigger] wl[i] == (t, sb);
            assert(hit(wl[i], t, sb));
        }
    }
}
pub proof fn lemma_bt_start<A>(dfa: &DFA<StateIdx, A>, wl: Seq<(StateIdx, bool)>)
    requires dfa.wf_dfa(),
        forall|i: int| 0 <= i < wl.len() ==> 0 <= (#[trigger] wl[i]).0.ix() < dfa.n(),
        forall|s: int| 0 <= s < dfa.n() && #[trigger] dfa.init(s) ==> in_wl(wl, (StateIdx::of(s), false)),
    ensures inv_bt(dfa, wl, Map::<StateIdx, bool>::empty(), None)
{
    reveal(inv_bt);
    let vis = Map::<StateIdx, bool>::empty();
    assert forall|s: int| 0 <= s < dfa.n() && #[trigger] dfa.init(s) implies covered(wl, vis, StateIdx::of(s), false) by {
        let i = choose|i: int| 0 <= i < wl.len() && #[trigger] wl[i] == (StateIdx::of(s), false);
        assert(hit(wl[i], StateIdx::of(s), false));
    }
}
// at fixpoint the flags are closed under successors
pub proof fn lemma_bt_fix<A>(dfa: &DFA<StateIdx, A>, vis: Map<StateIdx, bool>)
    requires inv_bt(dfa, Seq::<(StateIdx, bool)>::empty(), vis, None)
    ensures
        forall|s: int| 0 <= s < dfa.n() && #[trigger] dfa.init(s) ==> vis.contains_key(StateIdx::of(s)),
        forall|s: StateIdx, t: StateIdx| vis.contains_key(s) && #[trigger] dfa.is_succ(s.ix(), t) ==> vis.contains_key(t) && (eff(dfa, vis, s) ==> vis[t]),
{
    reveal(inv_bt);
}

pub open spec fn to_come(seq: Seq<&StateIdx>, from: int, v: StateIdx) -> bool { exists|k: int| from <= k < seq.len() && *(#[trigger] seq[k]) == v }
pub open spec fn to_come_r(seq: Seq<&Range<StateIdx>>, from: int, v: StateIdx) -> bool { exists|k: int| from <= k < seq.len() && (#[trigger] seq[k]).value == v }

// R7: outlined iterator chain (trusted)
#[verifier::external_body]
fn init_work_list<A>(dfa: &DFA<StateIdx, A>) -> (r: Vec<(StateIdx, bool)>)
    ensures
        forall|i: int| 0 <= i < r@.len() ==> 0 <= (#[trigger] r@[i]).0.ix() < dfa.n(),
        forall|s: int| 0 <= s < dfa.n() && #[trigger] dfa.init(s) ==> in_wl(r@, (StateIdx::of(s), false)),
{
    let work_list: Vec<(StateIdx, bool)> = dfa
        .states
        .iter()
        .enumerate()
        .filter_map(|(state_idx, state)| {
            if state.initial {
                Some((StateIdx(state_idx), false))
            } else {
                None
            }
        })
        .collect();
    work_list
}

impl<A> DFA<StateIdx, A> {
    // unfolding of is_succ for the caller
    proof fn lemma_succ_cases(&self, s: int, t: StateIdx)
        requires 0 <= s < self.n()
        ensures self.is_succ(s, t) <==> {
            let st = self.states@[s];
            ||| st.char_transitions@.values().contains(t)
            ||| (exists|k: int| 0 <= k < st.range_transitions.rs().len() && (#[trigger] st.range_transitions.rs()[k]).value == t)
            ||| st.any_transition == Some(t)
            ||| st.end_of_input_transition == Some(t) }
    {
        let st = self.states@[s];
        if st.char_transitions@.values().contains(t) {
            let c = choose|c: char| st.char_transitions@.contains_key(c) && st.char_transitions@[c] == t;
        }
        if (exists|c: char| st.char_transitions@.contains_key(c) && st.char_transitions@[c] == t) {
            let c = choose|c: char| st.char_transitions@.contains_key(c) && st.char_transitions@[c] == t;
            assert(st.char_transitions@.values().contains(st.char_transitions@[c]));
        }
    }
}



pub open spec fn extends(w0: Seq<(StateIdx, bool)>, w1: Seq<(StateIdx, bool)>) -> bool {
    w1.len() >= w0.len() && forall|i: int| 0 <= i < w0.len() ==> w1[i] == w0[i]
}
pub proof fn lemma_in_wl_ext(w0: Seq<(StateIdx, bool)>, w1: Seq<(StateIdx, bool)>, e: (StateIdx, bool))
    requires extends(w0, w1), in_wl(w0, e)
    ensures in_wl(w1, e)
{
    let i = choose|i: int| 0 <= i < w0.len() && #[trigger] w0[i] == e;
    assert(w1[i] == e);
}
pub proof fn lemma_bt_ext<A>(dfa: &DFA<StateIdx, A>, w0: Seq<(StateIdx, bool)>, w1: Seq<(StateIdx, bool)>, vis: Map<StateIdx, bool>, skip: Option<StateIdx>)
    requires inv_bt(dfa, w0, vis, skip), extends(w0, w1),
        forall|i: int| w0.len() <= i < w1.len() ==> 0 <= (#[trigger] w1[i]).0.ix() < dfa.n()
    ensures inv_bt(dfa, w1, vis, skip)
{
    reveal(inv_bt);
    assert forall|t: StateIdx, b: bool| covered(w0, vis, t, b) implies covered(w1, vis, t, b) by {
        if !(vis.contains_key(t) && (b ==> vis[t])) {
            let i = choose|i: int| 0 <= i < w0.len() && hit(#[trigger] w0[i], t, b);
            assert(w1[i] == w0[i]);
        }
    }
    assert forall|i: int| 0 <= i < w1.len() implies 0 <= (#[trigger] w1[i]).0.ix() < dfa.n() by { if i < w0.len() { assert(w1[i] == w0[i]); } }
}
impl<A> DFA<StateIdx, A> {
    pub proof fn lemma_succ_in_range(&self, s: int, t: StateIdx)
        requires self.wf_dfa(), 0 <= s < self.n(), self.is_succ(s, t)
        ensures 0 <= t.ix() < self.n()
    {
    }
}
// R7: outlined `for next in map.values() { work_list.push((*next, sb)) }` (trusted: vstd specifies completeness but not
// soundness of HashMap::values())
#[verifier::external_body]
fn push_char_targets(m: &Map_<char, StateIdx>, work_list: &mut Vec<(StateIdx, bool)>, sb: bool)
    ensures
        final(work_list)@.len() >= old(work_list)@.len(),
        forall|i: int| 0 <= i < old(work_list)@.len() ==> final(work_list)@[i] == old(work_list)@[i],
        forall|i: int| old(work_list)@.len() <= i < final(work_list)@.len() ==> (#[trigger] final(work_list)@[i]).1 == sb && m@.values().contains(final(work_list)@[i].0),
        forall|v: StateIdx| #[trigger] m@.values().contains(v) ==> in_wl(final(work_list)@, (v, sb)),
{
    for next in m.values() {
        work_list.push((*next, sb));
    }
}
// the real function up to the end of its work-list loop (the trailing assert_eq!/write-back are not part of this probe)
pub(crate) fn update_backtracks_loop<A>(dfa: &DFA<StateIdx, A>) -> (visited: Map_<StateIdx, bool>)
    requires dfa.wf_dfa(),
    ensures
        forall|s: int| 0 <= s < dfa.n() && #[trigger] dfa.init(s) ==> visited@.contains_key(StateIdx::of(s)),
        forall|s: StateIdx, t: StateIdx| visited@.contains_key(s) && #[trigger] dfa.is_succ(s.ix(), t) ==> visited@.contains_key(t) && (eff(dfa, visited@, s) ==> visited@[t]),
{
    broadcast use axiom_char_key_model;
    broadcast use axiom_stateidx_key_model;
    // State and whether the state is an accepting state.
    let mut work_list: Vec<(StateIdx, bool)> = init_work_list(dfa);

    // Set of visited nodes, with their backtrack state when visited. If a state's backtrack
    // property changes, we visit it again to make its successors backtrack.
    let mut visited: Map_<StateIdx, bool> = HashMap::new();
    proof { lemma_bt_start(dfa, work_list@); assert(visited@ =~= Map::<StateIdx, bool>::empty()); }

    let ghost mut prev = work_list@;
    let ghost mut vprev = visited@;
    while let Some((state, backtrack)) = work_list.pop()
        invariant
            prev == work_list@, vprev == visited@, dfa.wf_dfa(),
            inv_bt(dfa, work_list@, vprev, None),
        ensures
            inv_bt(dfa, work_list@, vprev, None), work_list@.len() == 0, vprev == visited@,
        decreases deficit(vprev, dfa.n()), work_list@.len(),
    {
        let ghost wl0 = work_list@;
        let ghost vis0 = visited@;
        broadcast use axiom_char_key_model;
        broadcast use axiom_stateidx_key_model;
        proof {
            assert(wl0.push((state, backtrack)) =~= prev);
            assert(inv_bt(dfa, wl0.push((state, backtrack)), vis0, None));
            lemma_bt_last(dfa, wl0.push((state, backtrack)), vis0, None);
            assert(wl0.push((state, backtrack))[wl0.len() as int] == (state, backtrack));
        }
        // Did we visit the state, with the right backtrack state?
        match visited.entry(state) {
            Entry::Occupied(mut entry) => {
                if *entry.get() || !backtrack {
                    proof { lemma_bt_skip(dfa, wl0, vis0, state, backtrack); prev = work_list@; vprev = vis0; }
                    continue;
                }
                entry.insert(true);
            }
            Entry::Vacant(entry) => {
                entry.insert(backtrack);
            }
        }

        let ghost v1 = vis0.insert(state, backtrack);
        proof {
            lemma_bt_update(dfa, wl0, vis0, state, backtrack);
            assert(visited@ == v1);
        }
        // Whether the successor states should backtrack.
        let successor_backtrack = backtrack || dfa.is_accepting_state(state);
        let ghost sb = successor_backtrack;
        let ghost w1 = work_list@;
        let ghost si = state.ix();

        push_char_targets(&dfa.states[state.0].char_transitions, &mut work_list, successor_backtrack);
        let ghost w2 = work_list@;
        proof {
            assert forall|i: int| w1.len() <= i < w2.len() implies 0 <= (#[trigger] w2[i]).0.ix() < dfa.n() by {
                dfa.lemma_succ_cases(si, w2[i].0);
                dfa.lemma_succ_in_range(si, w2[i].0);
            }
            lemma_bt_ext(dfa, w1, w2, v1, Some(state));
        }

        for next_range in it: dfa.states[state.0].range_transitions.iter()
            invariant
                inv_bt(dfa, work_list@, v1, Some(state)), extends(w2, work_list@),
                0 <= si < dfa.n(), si == state.ix(), dfa.wf_dfa(), sb == successor_backtrack,
                it.seq().len() == dfa.states@[si].range_transitions.rs().len(),
                forall|k: int| 0 <= k < it.seq().len() ==> *(#[trigger] it.seq()[k]) == dfa.states@[si].range_transitions.rs()[k],
                forall|k: int| 0 <= k < it.index@ ==> in_wl(work_list@, ((#[trigger] dfa.states@[si].range_transitions.rs()[k]).value, sb)),
        {
            let ghost wa = work_list@;
            let ghost kk = it.index@;
            work_list.push((next_range.value, successor_backtrack));
            proof {
                let x = (next_range.value, sb);
                assert(dfa.states@[si].range_transitions.rs()[kk].value == next_range.value);
                dfa.lemma_succ_cases(si, next_range.value);
                dfa.lemma_succ_in_range(si, next_range.value);
                lemma_bt_push(dfa, wa, v1, Some(state), x);
                assert forall|k: int| 0 <= k < kk + 1 implies in_wl(work_list@, ((#[trigger] dfa.states@[si].range_transitions.rs()[k]).value, sb)) by {
                    if k < kk { assert(in_wl(wa, (dfa.states@[si].range_transitions.rs()[k].value, sb))); }
                    lemma_in_wl_push(wa, x, (dfa.states@[si].range_transitions.rs()[k].value, sb));
                    assert(work_list@ =~= wa.push(x));
                }
                assert(extends(w2, work_list@)) by {
                    assert forall|i: int| 0 <= i < w2.len() implies work_list@[i] == w2[i] by { assert(wa[i] == w2[i]); }
                }
            }
        }
        let ghost w3 = work_list@;

        if let Some(next) = dfa.states[state.0].any_transition {
            proof {
                dfa.lemma_succ_cases(si, next); dfa.lemma_succ_in_range(si, next);
                lemma_bt_push(dfa, w3, v1, Some(state), (next, sb));
                lemma_in_wl_push(w3, (next, sb), (next, sb));
            }
            work_list.push((next, successor_backtrack));
        }
        let ghost w4 = work_list@;

        if let Some(next) = dfa.states[state.0].end_of_input_transition {
            proof {
                dfa.lemma_succ_cases(si, next); dfa.lemma_succ_in_range(si, next);
                lemma_bt_push(dfa, w4, v1, Some(state), (next, sb));
                lemma_in_wl_push(w4, (next, sb), (next, sb));
            }
            work_list.push((next, successor_backtrack));
        }
        proof {
            let w5 = work_list@;
            assert(extends(w3, w4) && extends(w4, w5) && extends(w2, w3));
            assert forall|t: StateIdx| #[trigger] dfa.is_succ(si, t) implies in_wl(w5, (t, sb)) by {
                dfa.lemma_succ_cases(si, t);
                let st = dfa.states@[si];
                if st.char_transitions@.values().contains(t) {
                    lemma_in_wl_ext(w2, w3, (t, sb)); lemma_in_wl_ext(w3, w4, (t, sb)); lemma_in_wl_ext(w4, w5, (t, sb));
                } else if (exists|k: int| 0 <= k < st.range_transitions.rs().len() && (#[trigger] st.range_transitions.rs()[k]).value == t) {
                    let k = choose|k: int| 0 <= k < st.range_transitions.rs().len() && (#[trigger] st.range_transitions.rs()[k]).value == t;
                    assert(in_wl(w3, (st.range_transitions.rs()[k].value, sb)));
                    lemma_in_wl_ext(w3, w4, (t, sb)); lemma_in_wl_ext(w4, w5, (t, sb));
                } else if st.any_transition == Some(t) {
                    assert(in_wl(w4, (t, sb)));
                    lemma_in_wl_ext(w4, w5, (t, sb));
                } else {
                    assert(in_wl(w5, (t, sb)));
                }
            }
            lemma_bt_close(dfa, w5, v1, state, sb);
            lemma_deficit_nonneg(v1, dfa.n());
            prev = work_list@; vprev = visited@;
        }
    }
    proof { assert(work_list@ =~= Seq::<(StateIdx, bool)>::empty()); lemma_bt_fix(dfa, visited@); }
    visited
}
}
fn main(){}
