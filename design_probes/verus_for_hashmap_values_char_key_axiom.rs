use vstd::prelude::*;
use std::collections::HashMap;
use vstd::std_specs::iter::IteratorSpec;
verus! {
use vstd::std_specs::hash::*;
pub broadcast axiom fn axiom_char_key_model()
    ensures #[trigger] obeys_key_model::<char>();
fn push_values(m: &HashMap<char, usize>, wl: &mut Vec<(usize, bool)>, b: bool)
{
    broadcast use axiom_char_key_model;
    for next in it: m.values()
    {
        wl.push((*next, b));
    }
}
fn push_values2(m: &HashMap<u64, usize>, wl: &mut Vec<(usize, bool)>, b: bool)
{
    for next in it: m.values()
        invariant wl@.len() == old(wl)@.len() + it.index@,
    {
        wl.push((*next, b));
    }
}
}
fn main(){}
