
use vstd::prelude::*;
use std::collections::{HashMap, HashSet};
verus! {
pub type Set<T> = HashSet<T>;
pub type Map<K, V> = HashMap<K, V>;

pub struct RangeMap<A> { ranges: Vec<Range<A>> }
pub struct Range<A> { pub start: u32, pub end: u32, pub value: A }
impl<A> RangeMap<A> {
    #[verifier::external_body]
    pub fn iter(&self) -> impl Iterator<Item = &Range<A>> { self.ranges.iter() }
}
#[derive(Clone, Copy)]
pub struct RightCtxIdx(usize);
#[derive(Clone, Copy)]
pub struct AcceptingState<A> { pub value: A, pub right_ctx: Option<RightCtxIdx> }

pub struct DFA<T, A> { states: Vec<State<T, A>> }
#[derive(Clone, Copy, PartialEq, Eq, PartialOrd, Ord, Hash)]
pub struct StateIdx(usize);
pub struct State<T, A> {
    initial: bool,
    char_transitions: Map<char, T>,
    range_transitions: RangeMap<T>,
    any_transition: Option<T>,
    end_of_input_transition: Option<T>,
    accepting: Vec<AcceptingState<A>>,
    predecessors: Set<StateIdx>,
    backtrack: bool,
}
impl<A> DFA<StateIdx, A> {
    pub fn is_accepting_state(&self, state: StateIdx) -> bool {
        !self.states[state.0].accepting.is_empty()
    }
}

use std::collections::hash_map::Entry;


#[verifier::external_body]
fn init_work_list<A>(dfa: &DFA<StateIdx, A>) -> (r: Vec<(StateIdx, bool)>) {
    let work_list: Vec<(StateIdx, bool)> = dfa
        .states
        .iter()
        .enumerate()
        .filter_map(|(state_idx, state)| {
            if state.initial {
                Some((StateIdx(state_idx), false))
            } else {
                None
            }
        })
        .collect();
    work_list
}

#[verifier::external_body]
fn write_back<A>(dfa: &mut DFA<StateIdx, A>, visited: Map<StateIdx, bool>) {
    for (state, backtrack) in visited {
        dfa.states[state.0].backtrack = backtrack;
    }

}
pub(crate) fn update_backtracks<A>(dfa: &mut DFA<StateIdx, A>) {
    // State and whether the state is an accepting state.
    let mut work_list: Vec<(StateIdx, bool)> = init_work_list(dfa);

    // Set of visited nodes, with their backtrack state when visited. If a state's backtrack
    // property changes, we visit it again to make its successors backtrack.
    let mut visited: Map<StateIdx, bool> = Default::default();

    while let Some((state, backtrack)) = work_list.pop() {
        // Did we visit the state, with the right backtrack state?
        match visited.entry(state) {
            Entry::Occupied(mut entry) => {
                if *entry.get() == backtrack {
                    continue;
                }
                entry.insert(backtrack);
            }
            Entry::Vacant(entry) => {
                entry.insert(backtrack);
            }
        }

        // Whether the successor states should backtrack.
        let successor_backtrack = backtrack || dfa.is_accepting_state(state);

        for next in dfa.states[state.0].char_transitions.values() {
            work_list.push((*next, successor_backtrack));
        }

        for next_range in dfa.states[state.0].range_transitions.iter() {
            work_list.push((next_range.value, successor_backtrack));
        }

        if let Some(next) = dfa.states[state.0].any_transition {
            work_list.push((next, successor_backtrack));
        }

        if let Some(next) = dfa.states[state.0].end_of_input_transition {
            work_list.push((next, successor_backtrack));
        }
    }


    write_back(dfa, visited);
}

}
fn main(){}
