use vstd::prelude::*;
use std::collections::{HashMap, HashSet};
use std::cmp::Ordering;
use vstd::std_specs::cmp::*;
verus! {
pub type Set<T> = HashSet<T>;
pub type Map<K, V> = HashMap<K, V>;

#[derive(Clone, Copy, PartialEq, Eq, PartialOrd, Ord, Hash)]
pub struct StateIdx(usize);

pub struct State { empty_transitions: Set<StateIdx> }
pub struct NFA { states: Vec<State> }

#[verifier::external_body]
fn to_worklist(states: &Set<StateIdx>) -> (r: Vec<StateIdx>) { states.iter().copied().collect() }

impl NFA {
    pub fn compute_state_closure(&self, states: &Set<StateIdx>) -> Set<StateIdx> {
        let mut worklist: Vec<StateIdx> = to_worklist(states);
        let mut closure: Set<StateIdx> = states.clone();

        while let Some(work) = worklist.pop() {
            for next_state in self.next_empty_states(work) {
                if closure.insert(*next_state) {
                    worklist.push(*next_state);
                }
            }
        }

        closure
    }

    fn next_empty_states(&self, state: StateIdx) -> &Set<StateIdx> {
        let state = &self.states[state.0];
        &state.empty_transitions
    }
}

pub closed spec fn sorted_idx(s: Seq<StateIdx>) -> bool { forall|i: int, j: int| 0 <= i < j < s.len() ==> s[i].0 < s[j].0 }
pub open spec fn sorted_by_cmp<T: Ord>(s: Seq<T>) -> bool { forall|i: int, j: int| 0 <= i < j < s.len() ==> s[i].cmp_spec(&s[j]) == Ordering::Less }
pub assume_specification<T: Ord> [<[T]>::binary_search] (s: &[T], x: &T) -> (r: Result<usize, usize>)
    ensures T::obeys_cmp_spec() && sorted_by_cmp(s@) ==> match r {
        Ok(i) => i < s@.len() && s@[i as int].cmp_spec(x) == Ordering::Equal && (forall|j: int| 0 <= j < i ==> s@[j].cmp_spec(x) == Ordering::Less),
        Err(i) => i <= s@.len() && (forall|j: int| 0 <= j < i ==> s@[j].cmp_spec(x) == Ordering::Less) && (forall|j: int| i <= j < s@.len() ==> s@[j].cmp_spec(x) == Ordering::Greater),
    };
pub struct CgCtx { inlined_states: Vec<StateIdx> }
impl StateIdx {
    fn map<F>(&self, f: F) -> StateIdx
    where
        F: Fn(usize) -> usize,
    {
        StateIdx(f(self.0))
    }
}
impl CgCtx {
    pub fn renumber_state(&self, state: StateIdx) -> StateIdx {
        match self.inlined_states.binary_search(&state) {
            Ok(idx) | Err(idx) => state.map(|state_idx| state_idx - idx),
        }
    }
}
}
fn main(){}
