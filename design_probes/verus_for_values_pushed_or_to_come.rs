use vstd::prelude::*;
use std::collections::{HashMap, HashSet};
use std::collections::hash_map::Entry;
use vstd::std_specs::iter::IteratorSpec;
use vstd::std_specs::hash::*;
verus! {
pub type Set_<T> = HashSet<T>;
pub type Map_<K, V> = HashMap<K, V>;

pub broadcast axiom fn axiom_char_key_model() ensures #[trigger] obeys_key_model::<char>();
pub broadcast axiom fn axiom_stateidx_key_model() ensures #[trigger] obeys_key_model::<StateIdx>();

pub struct Range<A> { pub start: u32, pub end: u32, pub value: A }
pub struct RangeMap<A> { ranges: Vec<Range<A>> }
impl<A> RangeMap<A> {
    pub closed spec fn rs(&self) -> Seq<Range<A>> { self.ranges@ }
    pub fn iter(&self) -> (r: std::slice::Iter<'_, Range<A>>)
        ensures r.remaining().len() == self.rs().len(),
            forall|i: int| 0 <= i < self.rs().len() ==> *(#[trigger] r.remaining()[i]) == self.rs()[i],
            r.obeys_prophetic_iter_laws(), r.decrease() is Some,
    { self.ranges.iter() }
}
#[derive(Clone, Copy)]
pub struct RightCtxIdx(usize);
#[derive(Clone, Copy)]
pub struct AcceptingState<A> { pub value: A, pub right_ctx: Option<RightCtxIdx> }

pub struct DFA<T, A> { states: Vec<State<T, A>> }
#[derive(Clone, Copy, PartialEq, Eq, Hash)]
pub struct StateIdx(usize);
pub struct State<T, A> {
    initial: bool,
    char_transitions: Map_<char, T>,
    range_transitions: RangeMap<T>,
    any_transition: Option<T>,
    end_of_input_transition: Option<T>,
    accepting: Vec<AcceptingState<A>>,
    predecessors: Set_<StateIdx>,
    backtrack: bool,
}
impl StateIdx { pub closed spec fn ix(self) -> int { self.0 as int } }
impl<A> DFA<StateIdx, A> {
    pub closed spec fn n(&self) -> int { self.states@.len() as int }
    pub closed spec fn acc(&self, s: int) -> bool { self.states@[s].accepting@.len() > 0 }
    pub closed spec fn init(&self, s: int) -> bool { self.states@[s].initial }
    pub closed spec fn is_succ(&self, s: int, t: StateIdx) -> bool {
        let st = self.states@[s];
        ||| exists|c: char| st.char_transitions@.contains_key(c) && st.char_transitions@[c] == t
        ||| exists|k: int| 0 <= k < st.range_transitions.rs().len() && st.range_transitions.rs()[k].value == t
        ||| st.any_transition == Some(t)
        ||| st.end_of_input_transition == Some(t)
    }
    pub fn is_accepting_state(&self, state: StateIdx) -> (r: bool)
        requires 0 <= state.ix() < self.n()
        ensures r == self.acc(state.ix())
    {
        !self.states[state.0].accepting.is_empty()
    }
}

pub open spec fn in_wl(wl: Seq<(StateIdx, bool)>, e: (StateIdx, bool)) -> bool { exists|i: int| 0 <= i < wl.len() && #[trigger] wl[i] == e }
pub proof fn lemma_in_wl_push(wl: Seq<(StateIdx, bool)>, x: (StateIdx, bool), e: (StateIdx, bool))
    ensures in_wl(wl, e) ==> in_wl(wl.push(x), e), in_wl(wl.push(x), x)
{
    if in_wl(wl, e) { let i = choose|i: int| 0 <= i < wl.len() && #[trigger] wl[i] == e; assert(wl.push(x)[i] == e); }
    assert(wl.push(x)[wl.len() as int] == x);
}
pub open spec fn to_come(seq: Seq<&StateIdx>, from: int, v: StateIdx) -> bool { exists|k: int| from <= k < seq.len() && *(#[trigger] seq[k]) == v }
fn t(m: &HashMap<char, StateIdx>, wl: &mut Vec<(StateIdx, bool)>, b: bool)
    ensures
        forall|c: char| #[trigger] m@.contains_key(c) ==> in_wl(final(wl)@, (m@[c], b)),
        forall|e: (StateIdx, bool)| in_wl(old(wl)@, e) ==> in_wl(final(wl)@, e),
{
    broadcast use axiom_char_key_model;
    for next in it: m.values()
        invariant
            forall|v: StateIdx| #[trigger] m@.values().contains(v) ==> in_wl(wl@, (v, b)) || to_come(it.seq(), it.index@, v),
            forall|e: (StateIdx, bool)| in_wl(old(wl)@, e) ==> in_wl(wl@, e),
    {
        let ghost w0 = wl@;
        wl.push((*next, b));
        proof {
            assert forall|v: StateIdx| #[trigger] m@.values().contains(v) implies in_wl(wl@, (v, b)) || to_come(it.seq(), it.index@ + 1, v) by {
                lemma_in_wl_push(w0, (*next, b), (v, b));
                if !in_wl(w0, (v, b)) {
                    let k = choose|k: int| it.index@ <= k < it.seq().len() && *(#[trigger] it.seq()[k]) == v;
                    if k == it.index@ { assert(v == *next); }
                }
            }
            assert forall|e: (StateIdx, bool)| in_wl(old(wl)@, e) implies in_wl(wl@, e) by { lemma_in_wl_push(w0, (*next, b), e); }
        }
    }
    proof {
        assert forall|c: char| #[trigger] m@.contains_key(c) implies in_wl(wl@, (m@[c], b)) by {
            assert(m@.values().contains(m@[c]));
        }
    }
}
}
fn main(){}
