use vstd::prelude::*;
use std::convert::TryFrom;
verus! {
#[verifier::external_type_specification]
#[verifier::external_body]
pub struct ExCharTryFromError(std::char::CharTryFromError);

pub open spec fn is_scalar(i: int) -> bool { (0 <= i <= 0xD7FF) || (0xE000 <= i <= 0x10FFFF) }
pub open spec fn next_scalar(i: int) -> int { if i == 0xD7FF { 0xE000 } else { i + 1 } }

pub assume_specification [<char as TryFrom<u32>>::try_from] (i: u32) -> (r: Result<char, <char as TryFrom<u32>>::Error>)
    ensures is_scalar(i as int) ==> (r matches Ok(c) && c == i as char && c as u32 == i),
            !is_scalar(i as int) ==> r is Err;
pub assume_specification [<u32 as From<char>>::from] (c: char) -> (r: u32)
    ensures r == c as u32;

pub open spec fn total_fun<F: Fn(char) -> bool>(f: F) -> bool {
    &&& forall|c: char| #[trigger] f.requires((c,))
    &&& forall|c: char, r1: bool, r2: bool| f.ensures((c,), r1) && f.ensures((c,), r2) ==> r1 == r2
}
pub open spec fn P<F: Fn(char) -> bool>(f: F, c: char) -> bool { f.ensures((c,), true) }


pub open spec fn in_ranges(v: Seq<(u32, u32)>, x: u32) -> bool { exists|k: int| 0 <= k < v.len() && (#[trigger] v[k]).0 <= x <= v[k].1 }

pub open spec fn canon_common<F: Fn(char) -> bool>(f: F, v: Seq<(u32, u32)>) -> bool {
    &&& forall|k: int| 0 <= k < v.len() ==> (#[trigger] v[k]).0 <= v[k].1 && is_scalar(v[k].0 as int) && is_scalar(v[k].1 as int)
    &&& forall|k: int, c: char| 0 <= k < v.len() && (#[trigger] v[k]).0 <= c as u32 <= v[k].1 ==> #[trigger] P(f, c)
    &&& forall|k: int| 0 <= k < v.len() - 1 ==> next_scalar((#[trigger] v[k]).1 as int) < v[k + 1].0
    &&& forall|k: int, c: char| 0 <= k < v.len() && c as u32 == next_scalar((#[trigger] v[k]).1 as int) ==> !#[trigger] P(f, c)
}
// the property C18: exact, sorted, maximal, scalar end points
#[verifier::opaque]
pub open spec fn canonical<F: Fn(char) -> bool>(f: F, v: Seq<(u32, u32)>) -> bool {
    &&& canon_common(f, v)
    &&& forall|c: char| #[trigger] P(f, c) ==> in_ranges(v, c as u32)
}
// loop invariant: canonical for the scalars below lim, plus an optional open range
#[verifier::opaque]
pub open spec fn canon_upto<F: Fn(char) -> bool>(f: F, v: Seq<(u32, u32)>, open: Option<(u32, u32)>, lim: int) -> bool {
    &&& canon_common(f, v)
    &&& forall|k: int| 0 <= k < v.len() ==> next_scalar((#[trigger] v[k]).1 as int) < lim
    &&& forall|c: char| (c as u32) < lim && #[trigger] P(f, c) ==> (in_ranges(v, c as u32) || (open matches Some(o) && o.0 <= c as u32 <= o.1))
    &&& open matches Some(o) ==> {
        &&& o.0 <= o.1 < lim && is_scalar(o.0 as int) && is_scalar(o.1 as int)
        &&& next_scalar(o.1 as int) >= lim
        &&& forall|c: char| o.0 <= c as u32 <= o.1 ==> #[trigger] P(f, c)
        &&& v.len() > 0 ==> next_scalar(v[v.len() - 1].1 as int) < o.0
    }
}


pub proof fn lemma_in_ranges_push(v: Seq<(u32, u32)>, r: (u32, u32), x: u32)
    ensures in_ranges(v.push(r), x) <==> (in_ranges(v, x) || r.0 <= x <= r.1)
{
    let t = v.push(r);
    if in_ranges(t, x) {
        let k = choose|k: int| 0 <= k < t.len() && (#[trigger] t[k]).0 <= x <= t[k].1;
        if k < v.len() { assert(v[k] == t[k]); }
    }
    if in_ranges(v, x) {
        let k = choose|k: int| 0 <= k < v.len() && (#[trigger] v[k]).0 <= x <= v[k].1;
        assert(t[k] == v[k]);
    }
    if r.0 <= x <= r.1 { assert(t[v.len() as int] == r); }
}

// i is not a scalar value: nothing to do
pub proof fn lemma_step_skip<F: Fn(char) -> bool>(f: F, v: Seq<(u32, u32)>, open: Option<(u32, u32)>, i: int)
    requires canon_upto(f, v, open, i), !is_scalar(i), 0 <= i <= 0x10FFFF
    ensures canon_upto(f, v, open, i + 1)
{
    reveal(canon_upto); reveal(canonical);
}

// scalar i satisfies f: open or extend the current range
pub proof fn lemma_step_true<F: Fn(char) -> bool>(f: F, v: Seq<(u32, u32)>, open: Option<(u32, u32)>, i: u32, c: char)
    requires canon_upto(f, v, open, i as int), is_scalar(i as int), c as u32 == i, P(f, c)
    ensures canon_upto(f, v, Some((match open { None => i, Some(o) => o.0 }, i)), i + 1)
{
    reveal(canon_upto); reveal(canonical);
    let o2 = (match open { None => i, Some(o) => o.0 }, i);
    assert forall|d: char| o2.0 <= d as u32 <= o2.1 implies #[trigger] P(f, d) by {
        if d as u32 == i { assert(d == c); }
    }
}

// scalar i does not satisfy f, no open range
pub proof fn lemma_step_false_none<F: Fn(char) -> bool>(f: F, v: Seq<(u32, u32)>, i: u32, c: char)
    requires canon_upto(f, v, None, i as int), is_scalar(i as int), c as u32 == i, !P(f, c)
    ensures canon_upto(f, v, None, i + 1)
{
    reveal(canon_upto); reveal(canonical);
    assert forall|d: char| (d as u32) < i + 1 && #[trigger] P(f, d) implies in_ranges(v, d as u32) by {
        if d as u32 == i { assert(d == c); }
    }
}

// scalar i does not satisfy f: close the open range
pub proof fn lemma_step_false_some<F: Fn(char) -> bool>(f: F, v: Seq<(u32, u32)>, o: (u32, u32), i: u32, c: char)
    requires canon_upto(f, v, Some(o), i as int), is_scalar(i as int), c as u32 == i, !P(f, c)
    ensures canon_upto(f, v.push(o), None, i + 1)
{
    reveal(canon_upto); reveal(canonical);
    let t = v.push(o);
    assert(next_scalar(o.1 as int) == i);
    assert forall|k: int| 0 <= k < t.len() implies (#[trigger] t[k]).0 <= t[k].1 && is_scalar(t[k].0 as int) && is_scalar(t[k].1 as int) by {
        if k < v.len() { assert(t[k] == v[k]); }
    }
    assert forall|k: int, d: char| 0 <= k < t.len() && (#[trigger] t[k]).0 <= d as u32 <= t[k].1 implies #[trigger] P(f, d) by {
        if k < v.len() { assert(t[k] == v[k]); }
    }
    assert forall|k: int| 0 <= k < t.len() - 1 implies next_scalar((#[trigger] t[k]).1 as int) < t[k + 1].0 by {
        assert(t[k] == v[k]);
        if k + 1 < v.len() { assert(t[k + 1] == v[k + 1]); }
    }
    assert forall|k: int, d: char| 0 <= k < t.len() && d as u32 == next_scalar((#[trigger] t[k]).1 as int) implies !#[trigger] P(f, d) by {
        if k < v.len() { assert(t[k] == v[k]); } else { assert(d == c); }
    }
    assert forall|k: int| 0 <= k < t.len() implies next_scalar((#[trigger] t[k]).1 as int) < i + 1 by {
        if k < v.len() { assert(t[k] == v[k]); }
    }
    assert forall|d: char| (d as u32) < i + 1 && #[trigger] P(f, d) implies in_ranges(t, d as u32) by {
        lemma_in_ranges_push(v, o, d as u32);
        if d as u32 == i { assert(d == c); }
    }
}

// after the loop
pub proof fn lemma_finish<F: Fn(char) -> bool>(f: F, v: Seq<(u32, u32)>, open: Option<(u32, u32)>)
    requires canon_upto(f, v, open, 0x110000)
    ensures canonical(f, match open { None => v, Some(o) => v.push(o) })
{
    reveal(canon_upto); reveal(canonical);
    match open {
        None => {}
        Some(o) => {
            let t = v.push(o);
            assert(o.1 == 0x10FFFF);
            assert forall|k: int| 0 <= k < t.len() implies (#[trigger] t[k]).0 <= t[k].1 && is_scalar(t[k].0 as int) && is_scalar(t[k].1 as int) by {
                if k < v.len() { assert(t[k] == v[k]); }
            }
            assert forall|k: int, d: char| 0 <= k < t.len() && (#[trigger] t[k]).0 <= d as u32 <= t[k].1 implies #[trigger] P(f, d) by {
                if k < v.len() { assert(t[k] == v[k]); }
            }
            assert forall|k: int| 0 <= k < t.len() - 1 implies next_scalar((#[trigger] t[k]).1 as int) < t[k + 1].0 by {
                assert(t[k] == v[k]);
                if k + 1 < v.len() { assert(t[k + 1] == v[k + 1]); }
            }
            assert forall|k: int, d: char| 0 <= k < t.len() && d as u32 == next_scalar((#[trigger] t[k]).1 as int) implies !#[trigger] P(f, d) by {
                if k < v.len() { assert(t[k] == v[k]); }
            }
            assert forall|d: char| #[trigger] P(f, d) implies in_ranges(t, d as u32) by {
                lemma_in_ranges_push(v, o, d as u32);
            }
        }
    }
}

pub proof fn lemma_init<F: Fn(char) -> bool>(f: F)
    ensures canon_upto(f, Seq::<(u32, u32)>::empty(), None, 0)
{
    reveal(canon_upto);
}

fn generate_char_fn_ranges(f: impl Fn(char) -> bool) -> (ranges: Vec<(u32, u32)>)
    requires total_fun(f),
    ensures canonical(f, ranges@),
{
    let mut ranges: Vec<(u32, u32)> = vec![];
    let mut current_range_start: Option<u32> = None;

    let mut it: u32 = 0; let hi: u32 = u32::from('\u{10FFFF}'); let mut fin = false;
    while !fin && it <= hi
        invariant
            hi == 0x10FFFF, it <= hi, total_fun(f),
        decreases (hi - it) + (if fin { 0int } else { 1int }),
    {
        let i = it;
        if it == hi { fin = true; } else { it += 1; }
        let c = match char::try_from(i) {
            Err(_) => continue,
            Ok(c) => c,
        };

        if f(c) {
            if current_range_start.is_none() {
                current_range_start = Some(i);
            }
        } else if let Some(current_range_start) = current_range_start.take() {
            ranges.push((current_range_start, i - 1));
        }
    }

    ranges
}
}
fn main(){}
