use vstd::prelude::*;
use std::collections::{HashMap, HashSet};
verus! {
pub type Map<K, V> = HashMap<K, V>;
#[derive(Clone, PartialEq, Eq, Hash)]
pub struct Var(pub String);
#[derive(Clone, PartialEq, Eq, Hash)]
pub struct Builtin(pub String);
pub enum Regex {
    Builtin(Builtin), Var(Var), Char(char), String(String), CharSet(CharSet),
    ZeroOrMore(Box<Regex>), OneOrMore(Box<Regex>), ZeroOrOne(Box<Regex>),
    Concat(Box<Regex>, Box<Regex>), Or(Box<Regex>, Box<Regex>), Any, EndOfInput,
    Diff(Box<Regex>, Box<Regex>),
}
pub struct CharSet(pub Vec<CharOrRange>);
#[derive(Clone, Copy)]
pub enum CharOrRange { Char(char), Range(char, char) }
pub struct RangeMap<A> { ranges: Vec<Range<A>> }
pub struct Range<A> { pub start: u32, pub end: u32, pub value: A }
impl<A> RangeMap<A> {
    #[verifier::external_body] pub fn new() -> RangeMap<A> { RangeMap { ranges: vec![] } }
    #[verifier::external_body] pub fn from_non_overlapping_sorted_ranges(ranges: Vec<Range<A>>) -> RangeMap<A> { RangeMap { ranges } }
    #[verifier::external_body] pub fn into_iter(self) -> std::vec::IntoIter<Range<A>> { self.ranges.into_iter() }
}
impl<A: Clone> RangeMap<A> {
    #[verifier::external_body] pub fn insert<F: Fn(&mut A, A)>(&mut self, s: u32, e: u32, value: A, merge: F) { }
    #[verifier::external_body] pub fn insert_ranges<F: Fn(&mut A, A), I: Iterator<Item = Range<A>>>(&mut self, it: I, merge: F) { }
    #[verifier::external_body] pub fn remove_ranges<B>(&mut self, other: &RangeMap<B>) { }
}
#[derive(Clone, Copy)]
pub struct BuiltinCharRange(u8);
impl BuiltinCharRange { #[verifier::external_body] pub fn get_ranges(&self) -> &'static [(u32, u32)] { &[] } }
#[verifier::external_body]
fn get_builtin_regex(builtin: &Builtin) -> BuiltinCharRange { BuiltinCharRange(0) }

#[verifier::external_body]
fn builtin_to_ranges(b: BuiltinCharRange) -> Vec<Range<()>> { vec![] }

fn regex_to_range_map(bindings: &Map<Var, Regex>, re: &Regex) -> RangeMap<()> {
    match re {
        Regex::Builtin(builtin) => {
            let builtin = get_builtin_regex(builtin);
            let ranges: Vec<Range<()>> = builtin_to_ranges(builtin);
            RangeMap::from_non_overlapping_sorted_ranges(ranges)
        }

        Regex::Var(var) => {
            let re = bindings
                .get(var)
                .unwrap_or_else(|| panic!("Unbound variable {:?}", var.0));

            regex_to_range_map(bindings, re)
        }

        Regex::Char(char) => {
            let mut map = RangeMap::new();
            map.insert(*char as u32, *char as u32, (), merge_values);
            map
        }

        Regex::String(_) => panic!("strings cannot be used in char sets (`#`)"),

        Regex::CharSet(char_set) => {
            let mut map = RangeMap::new();

            // TODO: Quadratic behavior below, `RangeMap::insert` is O(number of ranges)
            for char_or_range in char_set.0.iter() {
                match char_or_range {
                    CharOrRange::Char(char) => {
                        map.insert(*char as u32, *char as u32, (), merge_values);
                    }
                    CharOrRange::Range(start, end) => {
                        map.insert(*start as u32, *end as u32, (), merge_values);
                    }
                }
            }

            map
        }

        Regex::ZeroOrMore(_) => {
            panic!("`*` cannot be used in char sets (`#`)");
        }

        Regex::OneOrMore(_) => {
            panic!("`+` cannot be used in char sets (`#`)");
        }

        Regex::ZeroOrOne(_) => {
            panic!("`?` cannot be used in char sets (`#`)");
        }

        Regex::Concat(_, _) => {
            panic!("concatenation (`<re1> <re2>`) cannot be used in char sets (`#`)");
        }

        Regex::Or(re1, re2) => {
            let mut map1 = regex_to_range_map(bindings, re1);
            let map2 = regex_to_range_map(bindings, re2);

            map1.insert_ranges(map2.into_iter(), merge_values);

            map1
        }

        Regex::Any => {
            let mut map = RangeMap::new();
            map.insert(0, '\u{10FFFF}' as u32, (), merge_values);
            map
        }

        Regex::EndOfInput => panic!("`$` cannot be used in char sets (`#`)"),

        Regex::Diff(re1, re2) => {
            let mut map1 = regex_to_range_map(bindings, re1);
            let map2 = regex_to_range_map(bindings, re2);
            map1.remove_ranges(&map2);
            map1
        }
    }
}

fn merge_values(_val1: &mut (), _val2: ()) {}

}
fn main(){}
