use lexgen::lexer;
mod a {
    use lexgen::lexer;
    lexer! {
        pub L1 -> u8;
        type Error = u8;
        rule Init {
            'i' = 1,
            '[' => |l| l.switch(L1Rule::R),
            "xy" =? |l| l.return_(Err(7)),
        }
        rule R {
            'r' = 2,
            ']' => |l| l.switch(L1Rule::Init),
        }
    }
}
mod b {
    use lexgen::lexer;
    lexer! { pub L2 -> u8; ['a' 'b'] = 1, }
}
fn main() {
    // C08: fail in R, then lex 'i' in Init, then should stay in Init: 'r' must be an error
    let mut l = a::L1::new("[?iir");
    for x in &mut l { println!("{:?}", x); }
    println!("--- C07 custom err loc");
    let mut l = a::L1::new("ixy");
    for x in &mut l { println!("{:?}", x); }
    let mut l = b::L2::new("a");
    for x in &mut l { println!("{:?}", x); }
}
