#![allow(dead_code)]
use lexgen::lexer;
use lexgen_util::{Loc, LexerError, LexerErrorKind};

pub const N: usize = 4;
pub const K: usize = 6; // max log entries

#[derive(Clone, Copy, PartialEq, Eq, Debug)]
pub struct LogE { pub rule: u8, pub s: usize, pub e: usize }

#[derive(Clone, Debug)]
pub struct St { pub packed: u64, pub n: usize }
impl Default for St { fn default() -> Self { St { packed: 0, n: 0 } } }
impl St { fn push(&mut self, rule: u8, (_s, _e): (Loc, Loc)) { self.packed = (self.packed << 4) | (rule as u64); self.n += 1; } }

// Lexer under test: two rule sets, rewinding, skip, switch
lexer! {
    pub Lx -> u8;

    rule Init {
        'a'+ 'b' = 1,
        'a' = 2,
        ' ',
        '[' => |l| l.switch(LxRule::In),
    }
    rule In {
        'a' => |l| l.continue_(),
        ']' => |l| l.switch_and_return(LxRule::Init, 6),
    }
}

#[derive(Clone)]
pub struct ArrIter { pub a: [char; N], pub n: usize, pub i: usize }
impl Iterator for ArrIter { type Item = char; fn next(&mut self) -> Option<char> { if self.i < self.n { let c = self.a[self.i]; self.i += 1; Some(c) } else { None } } }

// ---------- reference ----------
#[derive(Clone, Copy, PartialEq, Eq, Debug)]
pub enum RItem { Tok(u8, usize, usize), Err(usize), End }

pub struct Ref { pub a: [char; N], pub n: usize, pub pos: usize, pub ms: usize, pub rs: u8, pub done: bool, pub log: [LogE; K], pub ln: usize }


fn rule_matches(a: &[char; N], pos: usize, l: usize, rs: u8, r: u8) -> bool {
    let s = |i: usize| if pos + i < N { a[pos + i] } else { '\0' };
    match (rs, r) {
        (0, 1) => { // 'a'+ 'b'
            if l < 2 { return false; }
            let mut ok = true;
            for i in 0..N { if i < l - 1 && s(i) != 'a' { ok = false; } }
            ok && s(l - 1) == 'b'
        }
        (0, 2) => l == 1 && s(0) == 'a',
        (0, 3) => l == 1 && s(0) == ' ',
        (0, 4) => l == 1 && s(0) == '[',
        (1, 5) => l == 1 && s(0) == 'a',
        (1, 6) => l == 1 && s(0) == ']',
        _ => false,
    }
}
fn viable(a: &[char; N], pos: usize, l: usize, rs: u8) -> bool {
    if l == 0 { return true; }
    let s = |i: usize| if pos + i < N { a[pos + i] } else { '\0' };
    if rs == 0 {
        let mut k = 0; let mut run = true;
        for i in 0..N { if run && i < l && s(i) == 'a' { k += 1; } else { run = false; } }
        if k >= 1 && (k == l || (k == l - 1 && s(k) == 'b')) { return true; }
        l == 1 && (s(0) == ' ' || s(0) == '[')
    } else {
        l == 1 && (s(0) == 'a' || s(0) == ']')
    }
}
impl Ref {
    fn rules(rs: u8) -> (u8, u8) { if rs == 0 { (1, 4) } else { (5, 6) } }
    pub fn next(&mut self) -> RItem {
        loop {
            if self.done { return RItem::End; }
            if self.pos == self.n {
                self.done = true;
                if self.rs == 0 { return RItem::End; } else { let ms = self.ms; self.ms = self.pos; self.rs = 0; return RItem::Err(ms); }
            }
            // longest match, first rule
            let (lo, hi) = Self::rules(self.rs);
            let mut best: Option<(usize, u8)> = None;
            for li in 0..N { let l = N - li; if l <= self.n - self.pos {
                for r in 1..=6u8 { if r >= lo && r <= hi && best.is_none() && rule_matches(&self.a, self.pos, l, self.rs, r) { best = Some((l, r)); } }
            } }
            match best {
                None => {
                    // longest viable prefix + offending char
                    let mut v = 0; let mut run = true;
                    for _i in 0..N { if run && self.pos + v < self.n && viable(&self.a, self.pos, v + 1, self.rs) { v += 1; } else { run = false; } }
                    let consumed = if self.pos + v < self.n { v + 1 } else { self.done = true; v };
                    let ms = self.ms; self.pos += consumed; self.ms = self.pos; self.rs = 0;
                    return RItem::Err(ms);
                }
                Some((l, r)) => {
                    self.pos += l;
                    if self.ln < K { self.log[self.ln] = LogE { rule: r, s: self.ms, e: self.pos }; } self.ln += 1;
                    match r {
                        1 | 2 => { let ms = self.ms; self.ms = self.pos; return RItem::Tok(r, ms, self.pos); }
                        3 => { self.ms = self.pos; }
                        4 => { self.rs = 1; }
                        5 => {}
                        _ => { self.rs = 0; let ms = self.ms; self.ms = self.pos; return RItem::Tok(6, ms, self.pos); }
                    }
                }
            }
        }
    }
}

fn conv(x: Option<Result<(Loc, u8, Loc), LexerError<std::convert::Infallible>>>) -> RItem {
    match x { None => RItem::End, Some(Ok((s, t, e))) => RItem::Tok(t, s.byte_idx, e.byte_idx), Some(Err(e)) => match e.kind { LexerErrorKind::InvalidToken => RItem::Err(e.location.byte_idx), LexerErrorKind::Custom(_) => RItem::Err(usize::MAX) } }
}



#[cfg(kani)]
#[kani::proof]
#[kani::unwind(11)]
fn check_step() {
    let n: usize = kani::any(); kani::assume(n <= N);
    let a: [char; N] = kani::any();
    let mut lx = Lx::new_from_iter(ArrIter { a, n, i: 0 });
    let got = conv(lx.next());
    assert!(got != RItem::Err(usize::MAX));
}
