use vstd::prelude::*;
verus! {
fn f(x: u32) -> (r: u32)
    ensures r == x + 1
{
    if x >= 10 { panic!("bad"); }
    assert!(x < 5);
    x + 1
}
}
fn main(){}
