#!/usr/bin/env python3
"""false-alarm test: apply every behaviour-preserving patch in benign/ to a scratch worktree of /repo and run the checks whose
functions it touches; a check must exit 0 (exit 2 = undecided is recorded, exit 1 = FALSE ALARM).  Results go to benign/<name>/meta.json.
usage: tools/run_benign.py [--units-only] [name ...]     (--units-only: only the Verus units, seconds per patch)"""
import json, os, re, subprocess, sys, time
ROOT = os.path.dirname(os.path.dirname(os.path.abspath(__file__)))
sys.path.insert(0, ROOT)
units_only = "--units-only" in sys.argv
first_only = "--first" in sys.argv  # only the first (most specific) check of each patch
names = [a for a in sys.argv[1:] if not a.startswith("--")]
# which checks depend on which file (the functions under contract and the generated code of layer C)
BY_FILE = [("crates/lexgen/src/range_map.rs", ["C11"]), ("crates/lexgen/src/regex_to_nfa.rs", ["C11", "C02"]), ("crates/lexgen/src/nfa.rs", ["C02"]),
           ("crates/lexgen/src/nfa_to_dfa.rs", ["C02", "C01"]), ("crates/lexgen/src/dfa/backtrack.rs", ["C01", "C12"]), ("crates/lexgen/src/dfa/simplify.rs", ["C03", "C05"]),
           ("crates/lexgen/src/dfa/codegen/ctx.rs", ["C03"]), ("crates/lexgen/src/dfa/codegen.rs", ["C13", "C09", "C01", "C04"]), ("crates/lexgen/src/dfa.rs", ["C05", "C12", "C01"]),
           ("crates/lexgen_util/src/lib.rs", ["C06", "C08", "C09", "C14", "C15"]), ("crates/char_range_gen/src/main.rs", ["C18", "C13"])]
UNITS = {"C01": ["update_backtracks", "nfa_to_dfa_targets"], "C02": ["compute_state_closure", "nfa_to_dfa_targets"], "C03": ["renumber_state", "simplify_remap"], "C05": ["dfa_builders"],
         "C11": ["range_map_small", "range_map_insert", "range_map_insert_ranges", "range_map_remove_ranges", "regex_to_range_map"], "C12": ["update_backtracks", "dfa_builders"],
         "C13": ["char_range_gen", "binary_search_template"], "C18": ["char_range_gen"]}
dirs = sorted(d for d in os.listdir(os.path.join(ROOT, "benign")) if os.path.isdir(os.path.join(ROOT, "benign", d)) and (not names or d in names))
bad = 0
for bd in dirs:
    meta_p = os.path.join(ROOT, "benign", bd, "meta.json")
    meta = json.load(open(meta_p)) if os.path.exists(meta_p) else {}
    patch = open(os.path.join(ROOT, "benign", bd, "patch.diff")).read()
    files = re.findall(r"^\+\+\+ b/(\S+)", patch, re.M)
    props = []
    for f, ps in BY_FILE:
        if f in files:
            props += [p for p in ps if p not in props]
    wt = "/var/tmp/benignrun_%s_%d" % (bd, os.getpid())
    subprocess.run(["git", "-C", "/repo", "worktree", "add", "-q", "--detach", wt, "HEAD"], check=True)
    try:
        r = subprocess.run(["git", "-C", wt, "apply", os.path.join(ROOT, "benign", bd, "patch.diff")], capture_output=True, text=True)
        if r.returncode != 0:
            print(bd, "PATCH DOES NOT APPLY", r.stderr[:200]); continue
        results = {}
        if units_only:
            os.environ["VERIF_REPO"] = wt
            os.environ["VERIF_SCRATCH"] = "/var/tmp/lexgen-benign"
            for mod in [m for m in list(sys.modules) if m.startswith("vlib")]:
                del sys.modules[mod]
            from vlib import common as C
            for u in sorted(set(u for p in props for u in UNITS.get(p, []))):
                res = C.run_verus_unit(u, 1)
                results[u] = {"status": res["status"], "reason": res.get("reason", "")[:200], "failed": res.get("failed", []),
                              "messages": [e["msg"] for e in res.get("error_messages", [])][:4]}
                alarm = res["status"] == "fail" and res.get("credible", True)
                flag = "FALSE ALARM" if alarm else ("proof-lost (no alarm)" if res["status"] == "fail" else ("undecided" if res["status"] != "ok" else "ok"))
                if alarm:
                    bad += 1
                print("%-34s unit %-26s %s %s" % (bd, u, flag, (res.get("failed") or res.get("reason", "")[:120]) if res["status"] != "ok" else ""), flush=True)
            subprocess.run(["rm", "-rf", "/var/tmp/lexgen-benign"])
            meta["units_only"] = results
        else:
            out_dir = "/var/tmp/benignrun_out_%s_%d" % (bd, os.getpid())
            os.makedirs(out_dir, exist_ok=True)
            for p in (props[:1] if first_only else props):
                env = dict(os.environ, VERIF_REPO=wt, VERIF_EVIDENCE_DIR=out_dir, VERIF_REPLAY_DIR=out_dir, VERIF_NO_PLAYBACK="1")
                t0 = time.time()
                pr = subprocess.run([os.path.join(ROOT, "check"), p], capture_output=True, text=True, env=env)
                viol = re.findall(r"^VIOLATION property=(\S+) replay=\S+ obligation=(\S+)", pr.stdout, re.M)
                results[p] = {"exit": pr.returncode, "seconds": round(time.time() - t0, 1), "violations": [v[1][:160] for v in viol],
                              "notes": re.findall(r"^(?:NOTE|UNDECIDED) .*$", pr.stdout, re.M)[:4]}
                if pr.returncode == 1:
                    bad += 1
                print("%-34s %s exit %d %.0fs %s" % (bd, p, pr.returncode, time.time() - t0, [v[1][:90] for v in viol][:2]), flush=True)
            subprocess.run(["rm", "-rf", out_dir])
            meta["checks"] = results
        meta["checked_at_verif_commit"] = subprocess.run(["git", "-C", ROOT, "rev-parse", "--short", "HEAD"], capture_output=True, text=True).stdout.strip()
        json.dump(meta, open(meta_p, "w"), indent=1)
    finally:
        subprocess.run(["git", "-C", "/repo", "worktree", "remove", "--force", wt])
print("false alarms:", bad)
