#!/usr/bin/env python3
"""run every seeded change in seeded/ against the checks of the property it targets (in a scratch worktree of /repo, evidence
and replays of these runs go to a scratch dir); records the outcome in seeded/<id>/meta.json (`caught_by`).
usage: tools/run_seeds.py [seed-dir-name ...] [--also C01,C06]"""
import json, os, re, subprocess, sys, time
ROOT = os.path.dirname(os.path.dirname(os.path.abspath(__file__)))
names = [a for a in sys.argv[1:] if not a.startswith("--")]
also = []
for a in sys.argv[1:]:
    if a.startswith("--also"):
        also = a.split("=", 1)[1].split(",")
seeds = sorted(d for d in os.listdir(os.path.join(ROOT, "seeded")) if os.path.isdir(os.path.join(ROOT, "seeded", d)) and (not names or d in names))
for sd in seeds:
    meta_p = os.path.join(ROOT, "seeded", sd, "meta.json")
    meta = json.load(open(meta_p))
    prop = meta["property"]
    if "caught_by" in meta and os.environ.get("SEED_RESUME"):
        print(sd, "already done:", "caught" if meta.get("caught") else "MISSED", flush=True)
        continue
    wt = "/var/tmp/seedrun_%s_%d" % (sd, os.getpid())
    subprocess.run(["git", "-C", "/repo", "worktree", "add", "-q", "--detach", wt, "HEAD"], check=True)
    try:
        r = subprocess.run(["git", "-C", wt, "apply", os.path.join(ROOT, "seeded", sd, "patch.diff")], capture_output=True, text=True)
        if r.returncode != 0:
            print(sd, "PATCH DOES NOT APPLY", r.stderr[:200]); continue
        out_dir = "/var/tmp/seedrun_out_%s_%d" % (sd, os.getpid())
        os.makedirs(out_dir, exist_ok=True)
        results = {}
        for p in [prop] + [x for x in also if x != prop]:
            env = dict(os.environ, VERIF_REPO=wt, VERIF_EVIDENCE_DIR=out_dir, VERIF_REPLAY_DIR=out_dir, VERIF_NO_PLAYBACK=os.environ.get("VERIF_NO_PLAYBACK", "1"))
            t0 = time.time()
            pr = subprocess.run([os.path.join(ROOT, "check"), p, "--tier", os.environ.get("SEED_TIER", "quick")], capture_output=True, text=True, env=env)
            viol = re.findall(r"^VIOLATION property=(\S+) replay=\S+ obligation=(\S+)(.*)$", pr.stdout, re.M)
            results[p] = {"exit": pr.returncode, "seconds": round(time.time() - t0, 1), "violations": [{"obligation": v[1][:160], "witness": "no-failing-input-found" not in v[2]} for v in viol],
                          "notes": re.findall(r"^(?:NOTE|UNDECIDED) .*$", pr.stdout, re.M)[:6]}
            print(sd, p, "exit", pr.returncode, "%.0fs" % (time.time() - t0), [v[1][:100] for v in viol][:3], flush=True)
        meta["caught_by"] = {p: r for p, r in results.items()}
        meta["caught"] = results[prop]["exit"] == 1
        meta["checked_at_verif_commit"] = subprocess.run(["git", "-C", ROOT, "rev-parse", "--short", "HEAD"], capture_output=True, text=True).stdout.strip()
        json.dump(meta, open(meta_p, "w"), indent=1)
        subprocess.run(["rm", "-rf", out_dir])
    finally:
        subprocess.run(["git", "-C", "/repo", "worktree", "remove", "--force", wt])
