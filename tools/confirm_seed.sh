#!/bin/bash
# tools/confirm_seed.sh <worktree> <seed dir> <ID>   -> prints CONFIRMED/REJECTED <ID> with details
WT="$1"; SD="$2"; ID="$3"
cd "$WT" || exit 3
git checkout -q -- . ; git clean -fdq crates
demo() {
  if [ -f "$SD/run_demo_$ID.sh" ]; then sh "$SD/run_demo_$ID.sh" "$WT" >/dev/null 2>&1; return $?; fi
  cp "$SD"/seed_demo_*.rs crates/lexgen/tests/ 2>/dev/null
  local t; t=$(basename "$(ls "$SD"/seed_demo_*.rs | head -1)" .rs)
  timeout 900 cargo test --offline -p lexgen --test "$t" >/dev/null 2>&1; local rc=$?
  rm -f crates/lexgen/tests/seed_demo_*.rs
  return $rc
}
demo; base=$?
git apply "$SD/patch.diff" || { echo "REJECTED $ID patch does not apply"; exit 1; }
timeout 1800 cargo test --workspace --no-fail-fast --offline > /tmp/confirm_$ID.log 2>&1; trc=$?
passed=$(grep -E "^test result" /tmp/confirm_$ID.log | sed -E 's/.* ([0-9]+) passed.*/\1/' | paste -sd+ | bc)
failed=$(grep -E "^test result" /tmp/confirm_$ID.log | sed -E 's/.* ([0-9]+) failed.*/\1/' | paste -sd+ | bc)
demo; withp=$?
git checkout -q -- . ; git clean -fdq crates
if [ "$base" = 0 ] && [ "$withp" != 0 ] && [ "$trc" = 0 ] && [ "$passed" = 119 ] && [ "$failed" = 0 ]; then
  echo "CONFIRMED $ID demo_without_patch=pass demo_with_patch=fail($withp) suite_with_patch=$passed passed/$failed failed"
else
  echo "REJECTED $ID demo_without_patch_rc=$base demo_with_patch_rc=$withp suite_rc=$trc passed=$passed failed=$failed"
fi
rm -f /tmp/confirm_$ID.log
