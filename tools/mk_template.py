#!/usr/bin/env python3
"""bootstrap helper: mark annotation lines of a proved probe file against the real item.
usage: mk_template.py <probe.rs> <first line> <last line> <repo file> <kw> <name> [impl] [rules]
prints the region with `//@` markers; lines mixing code and annotation are flagged `//@??`"""
import sys, difflib
sys.path.insert(0, '/verif')
from vlib import rustscan as rs, transplant as tp
probe, a, b, path, kw, name = sys.argv[1:7]
impl = sys.argv[7] if len(sys.argv) > 7 and sys.argv[7] else None
rules = sys.argv[8] if len(sys.argv) > 8 else ""
lines = open(probe).read().split("\n")[int(a) - 1:int(b)]
item = rs.find_item(open(path).read(), kw, name, impl=impl)
real = item.text
for r in [x.strip() for x in (rules.split(";;") if ";;" in rules else rules.split(";")) if x.strip()]:
    rn, _, ra = r.partition(":")
    real, n, note = tp.RULES[rn](real, ra)
rt = rs.norm(real)
pt, owner = [], []
for li, ln in enumerate(lines):
    for t in rs.norm(ln):
        pt.append(t); owner.append(li)
sm = difflib.SequenceMatcher(None, pt, rt, autojunk=False)
matched = [False] * len(pt)
for tag, i1, i2, j1, j2 in sm.get_opcodes():
    if tag == "equal":
        for i in range(i1, i2): matched[i] = True
    elif tag in ("replace", "insert"):
        sys.stderr.write("real-only tokens: %s\n" % " ".join(rt[j1:j2]))
per = {}
for i, li in enumerate(owner):
    per.setdefault(li, []).append(matched[i])
print('//@@ item %s %s file=%s%s%s' % (kw, name, path.replace('/repo/', ''), (' impl="%s"' % impl) if impl else '', (' rules=%s' % rules) if rules else ''))
for li, ln in enumerate(lines):
    m = per.get(li)
    if m is None: print(ln)
    elif all(m): print(ln)
    elif not any(m): print(ln + " //@")
    else: print(ln + " //@??")
print('//@@ end')
