#!/usr/bin/env python3
"""writes /verif/MANIFEST.json from the table below (single source of truth for the registered checks)"""
import json
import os

ROOT = os.path.dirname(os.path.dirname(os.path.abspath(__file__)))

BOUNDED_NOTE = ("The native sweep (DESIGN 11.14) and layer C are BOUNDED stand-ins (never counted as proved): the sweep executes the step contract on every string of length <= 5 (corpus definitions in the thorough tier: 6) over a small alphabet for the corpus "
                "and for 150 (thorough 600) seeded random definitions; layer C: the `programs` quantifier is sampled by the corpus in corpus/defs.py, inputs are "
                "all strings of at most N scalar values (N = 1..5 per definition, every character fully symbolic), calls handling more than m lexemes are "
                "excluded by assumption, unwinding assertions on. Trusted: Kani 0.68 / CBMC 6.11, the generated reference step function (this project's "
                "formalisation of the property and README), CBMC pointer checks off for safe-Rust generated code (Rust panics stay checked). ")
B_NOTE = ("Layer B harnesses are loop-free over a fully symbolic lexer state and therefore complete proofs of the run-time library part; "
          "contracts are spliced into a scratch copy of lexgen_util (no executable line changed). ")

P = {}


def add(pid, category, text, note, technique, design):
    P[pid] = dict(category=category, text=text, note=note, technique=technique, design=design)


add("C01", "model_checking",
    "Proved (Kani function contracts, complete): set_accepting_state records exactly the current position and action; backtrack restores exactly the saved position, "
    "iterator and action or fails. Bounded (Kani on macro-expanded lexers): one real next() call from a symbolic call-start state equals the maximal-munch reference step "
    "(longest match, first-rule priority, rewind) on 8 definitions incl. cyclic automata with joins, a context-only accepting state, shared tails and stale saved matches.",
    B_NOTE + BOUNDED_NOTE + "Proved (Verus, real text): update_backtracks (termination, flags closed under successors of flagged-or-accepting states) and the target-set assembly of nfa_to_dfa "
    "(a character arm stands for the character, the ranges containing it and `_`); their preconditions at the callers and the trusted R7/B1 fragments are listed in the evidence.",
    "Kani function contracts on lexgen_util + bounded step-contract harnesses (Kani/CBMC) on generated lexers against a generated reference", "5 C01, 11.4")
add("C02", "model_checking",
    "Proved (Verus): NFA::compute_state_closure returns exactly the epsilon-closure (contains the seeds, closed, every member reachable, terminates); the range-map merge used by overlapping "
    "transitions is proved in C11's units. Bounded: step-contract harnesses compare the generated lexer with a denotational regex matcher (structural recursion on the AST, straight-line tables) on 11 definitions covering "
    "every operator, overlapping ranges, `_` with ranges and literals, nested repetition, equivalent spellings (r+ / r r*, a|b / b|a, variable / definition, string / characters) "
    "and precedence-sensitive raw spellings.",
    BOUNDED_NOTE + "compute_state_closure: assumed specs of <&HashSet as IntoIterator>::into_iter and HashSet::clone, one trusted R7 fragment, wf_nfa not verified at callers. Also proved (unit nfa_to_dfa_targets, rule B1: two blocks of the real "
    "nfa_to_dfa): the target set of a character transition is exactly its own targets + those of every range containing the character + the `_` targets, of a range transition its own + the `_` targets. "
    "The rest of nfa_to_dfa (state map, closure calls, builder calls) and the language of add_re's automaton have no contract (a mechanised Thompson / subset-construction proof is out of reach here).",
    "bounded step-contract harnesses (Kani/CBMC) on generated lexers against a denotational reference", "5 C02, 11.4")
add("C03", "model_checking",
    "Proved (Verus): CgCtx::renumber_state subtracts exactly the number of inlined states below a state and never underflows; in dfa/simplify.rs (rule B1, three blocks of the real function) a state is removed only if it has no "
    "transition of any kind and is not a rule-set entry state, and every entry index and transition target is renumbered to the position the surviving state really gets (lemma_renumbering_is_position). Bounded: step contract with SYMBOLIC active rule set "
    "(entered through the generated switch) on 5 multi-rule-set definitions incl. dropped/inlined first states: only rules of the active set match, switch / switch_and_return enter "
    "exactly the named set, failures return to Init.",
    BOUNDED_NOTE + "renumber_state: assumed spec of [T]::binary_search and of derive(Ord) on StateIdx; sortedness of inlined_states is a precondition (CgCtx::new not verified). simplify_remap: loop headers, the "
    "order-preserving iterator chains are not verified; assumed spec of [T]::binary_search_by. DFA::add_dfa (which places a rule set's states and returns its entry index) is proved on the real text up to two trusted fragments.",
    "Verus contract on renumber_state + bounded step-contract harnesses with symbolic rule set", "5 C03, 11.4")
add("C04", "model_checking",
    "Bounded: 9 right-context definitions (multi-character literal, a character vs a range covering it inside the context, `$`, negative, nullable, context on a non-first rule, "
    "shorter match wins when the longer candidate's context fails); the reference validates a candidate iff some prefix of the rest (end-of-input visible) is in L(ctx) and never consumes it.",
    BOUNDED_NOTE + "Proved part (Verus, real right_ctx.rs): the index a rule stores for its right context is the position of the automaton built from that context. codegen.rs builds TokenStreams and has no contract.",
    "bounded step-contract harnesses (Kani/CBMC) on generated lexers with right contexts", "5 C04, 11.4")
add("C05", "model_checking",
    "Proved: backtrack clears the done flag exactly on a rewind; next() never drops a character; (Verus, real dfa.rs) has_no_transitions counts the `$` transition and set_end_of_input_transition stores exactly the given target "
    "(whole-view contracts of the DFA builder API), and DFA::add_dfa moves the `$` target of every state of a later rule set by exactly the old number of states. Bounded: the done flag is part of the symbolic call-start state; `$` rules in Init and other "
    "rule sets, `re $` preferred to `re`, Init ends the stream at a lexeme boundary, other rule sets fail, nothing after the end-of-input event.",
    B_NOTE + BOUNDED_NOTE + "Corpus policy: `$` only at the tail of a rule or context (the property's well-formedness condition).",
    "Kani contracts on lexgen_util + bounded step-contract harnesses with symbolic done flag", "5 C05, 11.4")
add("C06", "model_checking",
    "Proved (complete, all histories of run-time calls): next() advances the end location exactly by the README rule with the real unicode-width function; the representation invariant "
    "'start/end/saved locations are scan-consistent' is preserved by next, backtrack, set/reset_accepting_state, peek, match_loc, state, reset_match. Bounded: generated code takes spans "
    "before resetting (real-width definitions, failed-rewind states).",
    B_NOTE + BOUNDED_NOTE + "match_() slicing of the input string is not under contract (str byte reasoning); wf harnesses are parametric in the width function.",
    "Kani function contract on Lexer::next + representation-invariant harnesses + bounded step-contract harnesses", "5 C06, 11.3")
add("C07", "model_checking",
    "Proved: backtrack with nothing saved yields InvalidToken at the current match start. Bounded: an error item appears iff the reference has no candidate; its location is the lexeme start also "
    "after accumulated continue_ matches, in shared-tail states and after failing contexts; Err(e) of a fallible action surfaces as Custom(e) at the lexeme start without a token.",
    B_NOTE + BOUNDED_NOTE, "Kani contracts on lexgen_util + bounded step-contract harnesses (error kind, payload, location)", "5 C07")
add("C08", "model_checking",
    "Proved: a failed rewind resets both rule-set registers to Init and leaves the user state alone. Bounded: after InvalidToken the post-state is (Init, position = longest viable prefix + "
    "offending character when one was read, empty match, user log untouched); by the symbolic call-start state the following calls are reference steps from Init.",
    B_NOTE + BOUNDED_NOTE, "Kani contracts on lexgen_util + bounded step-contract harnesses (post-state of failures)", "5 C08")
add("C09", "model_checking",
    "Proved: no run-time operation panics, overflows or indexes out of bounds on any lexer state with counter headroom. Bounded: termination-only harnesses (every call returns within the "
    "unwinding bound, each item consumes a character or the end-of-input event, at most n+1 actions) incl. `$` under repetition, plus all Kani built-in checks of the step harnesses.",
    B_NOTE + BOUNDED_NOTE + "Termination for unbounded inputs is not proved (Kani cannot; a Verus proof would be per generated lexer).",
    "Kani no-panic harness on lexgen_util + bounded termination/progress harnesses with unwinding assertions", "5 C09")
add("C10", "model_checking",
    "Proved: reset_match empties the match at its end, peek returns the first unconsumed character and consumes nothing, match_loc returns the current bounds, only the user state is reachable "
    "through state(). Bounded: actions log (rule, match_loc, peek) into the user state; the log equals the reference log (exactly once per selected match, in order, none for abandoned "
    "candidates), all action kinds and sugar forms, no saved accepting position survives a call.",
    B_NOTE + BOUNDED_NOTE, "Kani contracts on lexgen_util + bounded step-contract harnesses with action log", "5 C10")
add("C11", "proof",
    "Verus discharges, for unbounded vectors and every u32 code point, that RangeMap::insert / insert_ranges / remove_ranges (real text of range_map.rs, extracted on every run) preserve "
    "well-formedness (sorted, disjoint, non-empty pieces) and compute exactly union / difference of the covered code points, terminate and never overflow; constructors and accessors have exact "
    "functional postconditions; and that the real regex_to_range_map turns every class expression (character, bracket set, `_`, built-in, variable, `|`, `#`) into a well-formed range map denoting "
    "exactly its set, with every panic arm unreachable for class expressions. Additionally single-class lexers (bracket sets, `_`, built-in, `|`, chained `#`) are checked by Kani over the WHOLE scalar domain (one-character window: complete per definition).",
    "Trusted: Verus/Z3, extraction rules R1 R8 R11 R12 R14, assumed specs of mem::take, cmp::max/min, RangeInclusive::start/end, Vec::extend, derived Clone of Range; RangeMap::map not under "
    "contract; in the regex_to_range_map unit the RangeMap callees are restated contracts (kept equal to the proved ones by hand), the class denotation is given by guarded defining axioms, "
    "termination of regex_to_range_map is not proved, the built-in name lookup is trusted (C13). The native small-scope replayer only produces witnesses.",
    "contract-based deductive verification (Verus) of mechanically extracted real functions", "5 C11, 11.2")
add("C12", "other",
    "Bounded stand-in by execution: 74+ definitions (the whole layer-C corpus plus the C12-specific ones: the formerly non-terminating five-rule definition, contexts of every shape, repeated "
    "characters in sets, nested optional/starred operands, several rule sets, large built-ins, tens of rules, several lexers per module) are expanded by the real macro and compiled, each under a 120 s watchdog.",
    "A finite corpus; 'expanding twice gives the same code' is a two-run property no contract expresses: eight definitions are expanded twice in separate compiler processes and compared (execution only). "
    "Proved parts (Verus, real text, listed in the evidence): termination of update_backtracks for every DFA; for every well-formed regex no self-check (assert!) of the NFA construction add_re / add_regex can fire and every index is "
    "in bounds; the DFA builder API keeps every transition target inside the state vector and its own asserts hold under the stated preconditions. One KNOWN FINDING (exponential code size, DESIGN 11.8).",
    "expansion + compilation of a corpus under a watchdog (bounded stand-in); Verus termination proof of the backtrack analysis when present", "5 C12")
add("C13", "proof",
    "Composition: (1) Verus contract of the real table generator (canonical list of any predicate); (2) the real generator on the 20 README predicates equals the table the real name lookup returns, "
    "plus brute-force comparison of every scalar value; (3) macro-expanded lexers for all 20 built-ins and 5 combined classes, in the three generated membership-test shapes, agree with the Rust "
    "predicate on all 1,112,064 scalar values (exhaustive enumeration of a finite domain, reported separately from verifier obligations).",
    "'Rust predicate' = core/unicode-xid of the toolchain that builds the repository (Unicode version recorded). Only the generator contract is a deductive proof; the other parts are complete finite enumerations "
    "run natively on code built from the snapshot.",
    "Verus contract on the real generator composed with exhaustive finite-domain comparison of tables and macro-expanded membership tests", "5 C13")
add("C14", "model_checking",
    "Proved: the constructors produce the documented initial state; one symbolic character fed through new_with_state(&str) and through new_from_iter_with_state gives identical results of every "
    "operation (real width function). Bounded: the step contract holds for lexers built from a &str holding the UTF-8 encoding of the same symbolic characters (`via=str`).",
    B_NOTE + BOUNDED_NOTE + "The generated constructors are one-line delegations; `new`/`new_from_iter` = `*_with_state(Default)` is proved at the library level.",
    "Kani harnesses on lexgen_util constructors + bounded step-contract harnesses on string-built lexers", "5 C14, 11.4")
add("C15", "model_checking",
    "Proved: the derived Clone of the run-time lexer is field-wise, and any operation on one copy leaves the other untouched. Bounded: the step contract holds for a CLONE taken at any call boundary "
    "(symbolic rule set, done flag, position), and the clone's call leaves the original untouched (`via=clone`); with the step contract of the original this gives identical continuation.",
    B_NOTE + BOUNDED_NOTE + "Assumes user state and user iterator clone deeply and actions are deterministic.",
    "Kani harness on the derived Clone + bounded step-contract harnesses on cloned lexers", "5 C15, 11.4")
add("C18", "proof",
    "Verus proves the real generate_char_fn_ranges (extracted on every run) against 'for every total, functional predicate f the result is the canonical list': scalar end points, exact membership "
    "in both directions, sorted/disjoint/non-adjacent across the surrogate gap, maximal, incl. a range reaching char::MAX; termination and absence of overflow included.",
    "Trusted: Verus/Z3, rules R3 R4 R6 R14 (R4 cross-checked by executing original and rewritten function on a predicate battery each run), assumed specs of char::try_from(u32) and u32::from(char).",
    "contract-based deductive verification (Verus) of the mechanically extracted real function", "5 C18")

NOT_APPLICABLE = [
    {"property_id": "C16", "reason": "grammar/precedence/scoping live in parse_* functions over syn::parse::ParseStream; neither Verus nor Kani can model the syn parse buffer or make a token stream symbolic, so no contract within reach expresses it (DESIGN.md section 7)"},
    {"property_id": "C17", "reason": "rejections are panics / syn::Errors reached from the proc-macro entry point on token input; same obstacle as C16; the only contract-expressible fragment (regex_to_range_map panic arms) is the converse direction (DESIGN.md section 7)"},
]


def main():
    checks = []
    for pid in sorted(P):
        p = P[pid]
        checks.append({
            "property_id": pid, "quick_cmd": "./check %s --tier quick" % pid, "thorough_cmd": "./check %s --tier thorough" % pid,
            "evidence_file": "evidence/%s.json" % pid, "replay_cmd_template": "./check %s --replay {path}" % pid,
            "engine": "verus-units" if pid in ("C11", "C13", "C18") else ("corpus-expansion" if pid == "C12" else "kani-contracts+step-harnesses"),
            "level_claimed": {"category": p["category"], "text": p["text"], "design_ref": "DESIGN.md section " + p["design"]},
            "level_note": p["note"], "technique": p["technique"]})
    m = {
        "version": 1,
        "setup_cmd": "true",
        "hooks": {"guard": "none: /repo carries no hooks; contracts are spliced into a scratch snapshot of /repo's working tree on every run",
                  "enable": "./check <ID> snapshots /repo (rsync of the working tree) and splices Verus annotations / Kani contracts there",
                  "baseline_off_cmd": "cd /repo && cargo test --workspace --no-fail-fast --offline", "source_commits": [], "add_only": True},
        "engines": [
            {"name": "verus-units", "path": "vlib/transplant.py + contracts/verus/*.vt", "serves_properties": ["C01", "C02", "C03", "C04", "C05", "C10", "C11", "C12", "C13", "C18"],
             "kind_free_text": "18 units: real functions (and, rule B1, blocks of functions) extracted mechanically from the snapshot, annotations transplanted by token alignment (following renamed locals and moved code), verified by Verus/Z3"},
            {"name": "kani-contracts+step-harnesses", "path": "contracts/kani/lexgen_util.py + vlib/gen_corpus.py + corpus/defs.py",
             "serves_properties": ["C01", "C02", "C03", "C04", "C05", "C06", "C07", "C08", "C09", "C10", "C11", "C14", "C15"],
             "kind_free_text": "Kani function contracts / complete loop-free harnesses on lexgen_util (proved) and bounded step-contract harnesses on macro-expanded corpus lexers against a generated reference"},
            {"name": "native-sweep", "path": "vlib/sweep.py + corpus/random_defs.py", "serves_properties": ["C01", "C02", "C03", "C04", "C05", "C06", "C07", "C08", "C09", "C10"],
             "kind_free_text": "the same step contract executed natively on every short string over a small alphabet, for the corpus and for seeded random definitions (bounded stand-in by execution)"},
            {"name": "corpus-expansion", "path": "checks/c12.py + corpus/c12_defs.py", "serves_properties": ["C12"], "kind_free_text": "real macro expansion + rustc on a corpus under a watchdog"},
            {"name": "native-exhaustive", "path": "replayers/ + vlib/c13gen.py", "serves_properties": ["C11", "C13", "C18"],
             "kind_free_text": "crates generated in scratch that include the real code from the snapshot: witness search (C11, C18) and finite-domain enumeration (C13)"},
        ],
        "checks": checks,
        "notes": "Exit codes: 0 = no violation in what was explored and at least one obligation decided (parts that could not be decided on the tree are printed as UNDECIDED lines and listed under `undecided` in the evidence); "
                 "1 = violation (VIOLATION line); 2 = nothing could be decided. A failed Verus obligation is a violation unless the edit displaced the proof hints of the failing item (DESIGN 11.13). Evidence keeps proved and bounded parts apart "
                 "(coverage.proved_obligations vs coverage.bounded_part / native_sweep). known_findings.txt lists ten repaired defects as `fixed:` entries (they suppress nothing) and one open finding (C12).",
        "not_applicable": NOT_APPLICABLE,
    }
    with open(os.path.join(ROOT, "MANIFEST.json"), "w") as f:
        json.dump(m, f, indent=1)
    print("wrote MANIFEST.json with %d checks" % len(checks))


if __name__ == "__main__":
    main()
