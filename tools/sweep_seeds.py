#!/usr/bin/env python3
"""measure what the native sweep ALONE (seeded random definitions, no hand-written definition, no Kani) detects of the seeded changes:
for every seed the patch is applied to a scratch worktree and the quick-tier random definitions are swept.
usage: tools/sweep_seeds.py [n_defs] [seed-name ...]   -> prints one line per seed; writes seeded/<id>/meta.json["sweep_alone"]"""
import json, os, re, subprocess, sys
ROOT = os.path.dirname(os.path.dirname(os.path.abspath(__file__)))
sys.path.insert(0, ROOT)
args = sys.argv[1:]
n_defs = int(args[0]) if args and args[0].isdigit() else 60
names = [a for a in args if not a.isdigit()]
seeds = sorted(d for d in os.listdir(os.path.join(ROOT, "seeded")) if os.path.isdir(os.path.join(ROOT, "seeded", d)) and (not names or d in names))
TAG = re.compile(r"^\[([A-Z0-9 ]+)\]")
for sd in seeds:
    meta_p = os.path.join(ROOT, "seeded", sd, "meta.json")
    meta = json.load(open(meta_p))
    prop = meta["property"]
    wt = "/var/tmp/sweepseed_%s_%d" % (sd, os.getpid())
    subprocess.run(["git", "-C", "/repo", "worktree", "add", "-q", "--detach", wt, "HEAD"], check=True)
    try:
        if subprocess.run(["git", "-C", wt, "apply", os.path.join(ROOT, "seeded", sd, "patch.diff")], capture_output=True).returncode != 0:
            print(sd, "patch does not apply"); continue
        code = """
import sys, json; sys.path.insert(0, %r)
from vlib import sweep as S
from corpus import random_defs as RD
rows = S.run(RD.make(1000, %d), 'seedsweep', 6, 4, 5)
print('RESULT ' + json.dumps([{'def': r['def']['name'], 'props': r['def']['props'], 'status': r['status'], 'msg': (r.get('fail') or {}).get('msg', r.get('reason', ''))[:160]} for r in rows if r['status'] != 'ok']))
""" % (ROOT, n_defs)
        p = subprocess.run([sys.executable, "-c", code], capture_output=True, text=True, env=dict(os.environ, VERIF_REPO=wt, VERIF_SCRATCH="/var/tmp/lexgen-sweepseed"))
        m = re.search(r"^RESULT (.*)$", p.stdout, re.M)
        bad = json.loads(m.group(1)) if m else [{"def": "?", "props": [], "status": "undecided", "msg": p.stderr[-200:]}]
        fails = [b for b in bad if b["status"] == "fail"]
        def tags(msg):
            t = TAG.match(msg)
            return t.group(1).split() if t else ["C09"]
        for_prop = [b for b in fails if prop in b["props"] and prop in tags(b["msg"])]
        meta["sweep_alone"] = {"random_definitions": n_defs, "failing_definitions": len(fails), "failing_for_target_property": len(for_prop),
                               "undecided": len([b for b in bad if b["status"] != "fail"]), "sample": (for_prop or fails)[:2]}
        json.dump(meta, open(meta_p, "w"), indent=1)
        print("%-10s %s sweep alone: %d failing definitions, %d count for %s%s" % (sd, prop, len(fails), len(for_prop), prop, "  UNDECIDED" if any(b["status"] != "fail" for b in bad) else ""), flush=True)
    finally:
        subprocess.run(["git", "-C", "/repo", "worktree", "remove", "--force", wt])
        subprocess.run(["rm", "-rf", "/var/tmp/lexgen-sweepseed"])
