#!/bin/bash
# tools/try_patch.sh <patch.diff | rev:<commit>> <ID> [<ID> ...]
# applies a patch (or reverts a commit) in a scratch worktree of /repo and runs the checks against it;
# evidence and replay files of these runs go to a scratch directory, not to /verif/evidence.
set -u
P="$1"; shift
WT=/var/tmp/tp_wt_$$
git -C /repo worktree add -q --detach "$WT" HEAD || exit 3
if [[ "$P" == rev:* ]]; then
  git -C "$WT" revert --no-commit "${P#rev:}" >/dev/null 2>&1 || { echo "revert failed"; git -C /repo worktree remove --force "$WT"; exit 3; }
else
  git -C "$WT" apply "$P" || { echo "apply failed"; git -C /repo worktree remove --force "$WT"; exit 3; }
fi
OUT=/var/tmp/tp_out_$$; mkdir -p "$OUT"
for id in "$@"; do
  echo "=== $id on $P"
  VERIF_REPO="$WT" VERIF_EVIDENCE_DIR="$OUT" VERIF_REPLAY_DIR="$OUT" /verif/check "$id" ${TIERARG:-}
  echo "exit=$?"
done
if [ -n "${SHOW_REPLAY:-}" ]; then for f in "$OUT"/*.txt; do [ -f "$f" ] && head -${SHOW_REPLAY} "$f"; done; fi
git -C /repo worktree remove --force "$WT"
rm -rf "$OUT"
