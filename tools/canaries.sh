#!/bin/bash
# Self-test (not a registered check): every repaired defect, re-introduced in a scratch worktree by reverting its `fix:` commit, must
# make the check of its property report a violation.  Usage: tools/canaries.sh            (takes 30-60 minutes)
cd "$(dirname "$0")/.."
declare -A C=( [c88baac]="C11" [67c9b23]="C18" [067a718]="C13" [450858a]="C01 C12" [60179cb]="C04 C12" [46538b3]="C07" [c728211]="C08" [a7fd6c6]="C12" [be386b6]="C12" [52ae084]="C13" )
rc=0
for commit in "${!C[@]}"; do
  for id in ${C[$commit]}; do
    out=$(VERIF_NO_PLAYBACK=1 tools/try_patch.sh rev:$commit $id 2>&1 | grep -E "^exit=|^VIOLATION" | head -3)
    if echo "$out" | grep -q "^exit=1"; then echo "canary $commit $id: caught"; else echo "canary $commit $id: NOT CAUGHT ($out)"; rc=1; fi
  done
done
exit $rc
