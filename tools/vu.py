#!/usr/bin/env python3
"""developer helper: expand one Verus unit against VERIF_REPO and run Verus on it.  usage: tools/vu.py <unit> [-v]"""
import os, sys, json
sys.path.insert(0, os.path.dirname(os.path.dirname(os.path.abspath(__file__))))
os.environ.setdefault("VERIF_SCRATCH", "/var/tmp/lexgen-vu")  # own scratch root, so that cleaning it never touches a running check
os.environ.setdefault("VERIF_KEEP", "1")  # scratch under /var/tmp/lexgen-verif/run-* is kept for inspection: remove it afterwards
from vlib import common as C
r = C.run_verus_unit(sys.argv[1], 1)
print("status:", r["status"], "| verified:", r.get("verified"), "| errors:", r.get("errors"), "| reason:", r.get("reason", ""), "| wall:", r.get("wall_s"))
print("file:", r.get("generated_file"))
for it in r.get("items", []):
    for ru in it.get("rules", []):
        if "NOT APPLICABLE" in ru.get("note", ""):
            print("rule not applicable:", it["item"], ru)
for f in r.get("functions", []):
    if not f["success"] or "-v" in sys.argv:
        print("  fn", f["function"], "ok" if f["success"] else "FAILED", f["ms"], "ms")
if r["status"] != "ok":
    print(r.get("stderr", "")[-int(os.environ.get("TAIL", "5000")):])
