#!/usr/bin/env python3
"""prints the markdown table of seeded changes and which check caught them (from seeded/*/meta.json)"""
import json, os, glob
ROOT = os.path.dirname(os.path.dirname(os.path.abspath(__file__)))
print("| seed | property | file(s) changed | what it needs to manifest | result of `./check <property>` on the patched tree |")
print("|---|---|---|---|---|")
for d in sorted(glob.glob(os.path.join(ROOT, "seeded", "*"))):
    m = json.load(open(os.path.join(d, "meta.json")))
    prop = m["property"]
    files = ", ".join(os.path.basename(f) for f in m.get("files_changed", [])) if isinstance(m.get("files_changed"), list) else str(m.get("files_changed", ""))
    needs = " ".join(str(m.get("needs_to_manifest", "")).split())[:230]
    cb = m.get("caught_by", {}).get(prop)
    if cb is None:
        res = "not run"
    elif cb["exit"] == 1:
        obs = "; ".join(v["obligation"].split("[")[0].rstrip("_") + (" (witness)" if v.get("witness") else "") for v in cb["violations"][:3])
        res = "**caught** (exit 1): " + obs
    elif cb["exit"] == 2:
        res = "undecided (exit 2): " + "; ".join(n[:90] for n in cb.get("notes", [])[:2])
    else:
        res = "MISSED (exit 0)"
    fm = m.get("first_measurement")
    if fm is not None and not fm.get("caught"):
        res += " - first measurement (before strengthening): exit %s" % fm.get("exit")
    sa = m.get("sweep_alone")
    if sa is not None:
        res += " - random sweep alone (%d definitions): %s" % (sa["random_definitions"], ("%d definitions fail, %d of them on an assertion of this property" % (sa["failing_definitions"], sa["failing_for_target_property"])) if sa["failing_definitions"] else "nothing")
    note = m.get("detection_note")
    if note:
        res += " - " + note
    print("| %s | %s | %s | %s | %s |" % (os.path.basename(d), prop, files, needs.replace("|", "/"), res.replace("|", "/")))
