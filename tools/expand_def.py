#!/usr/bin/env python3
"""Expand corpus definitions with the real macro of VERIF_REPO and report whether the generated code is table-driven
(counts of *_RANGE_TABLE_* statics and *_BINARY_SEARCH calls).  Used when writing a definition that is meant to exercise the
search-table path:  python3 tools/expand_def.py c02_table_shape [--print]"""
import os, re, subprocess, sys, shutil
sys.path.insert(0, os.path.dirname(os.path.dirname(os.path.abspath(__file__))))
from checks import c12
from vlib import common as C

def main():
    names = [a for a in sys.argv[1:] if not a.startswith("--")]
    root, bins = c12.build_crate()
    env = dict(os.environ, CARGO_NET_OFFLINE="true", CARGO_TARGET_DIR=os.path.join(root, "target"), RUSTC_BOOTSTRAP="1")
    for n in names:
        p = subprocess.run(["cargo", "rustc", "--offline", "-q", "--bin", n, "--", "-Awarnings", "-Zunpretty=expanded"], cwd=root, capture_output=True, text=True, env=env)
        if p.returncode:
            print(n, "did not expand:", p.stderr[-500:]); continue
        t = p.stdout
        print("%s: %d range tables, %d search calls, %d lines" % (n, len(re.findall(r"static \w*RANGE_TABLE_\d+", t)), len(re.findall(r"_BINARY_SEARCH\(", t)) , t.count("\n")))
        if "--print" in sys.argv:
            print(t)
    if not os.environ.get("VERIF_KEEP"):
        shutil.rmtree(root, ignore_errors=True)

main()
