#!/usr/bin/env python3
"""run every corpus definition's step harness at the given tier and print a table (used to calibrate bounds and to
re-validate the reference against the unchanged tree).  usage: tools/sweep_corpus.py [quick|thorough] [name ...]"""
import os, sys, time
sys.path.insert(0, os.path.dirname(os.path.dirname(os.path.abspath(__file__))))
from vlib import common as C, layerc as LC
from corpus import defs as D
tier = sys.argv[1] if len(sys.argv) > 1 else "quick"
names = sys.argv[2:]
defs = [d for d in D.DEFS if (not names or d["name"] in names) and (tier == "thorough" or d.get("tier") != "thorough")]
t0 = time.time()
rows = LC.run_defs(defs, tier, timeout=int(os.environ.get("TMO", "2400")))
for r in sorted(rows, key=lambda r: r["def"]["name"]):
    v = r["result"]
    print("%-28s N=%d m=%d U=%-2d %-9s kani=%-7s wall=%-7s checks=%s covers=%s %s" % (r["def"]["name"], r["N"], r["m"], r["unwind"], v["status"], v["time_s"], v.get("wall_s"),
          v["checks"], v["covers"], [f["check"][:90] for f in v["failed_checks"]][:4]))
    if v["status"] == "undecided":
        print("    ", v["raw_tail"][-1200:].replace("\n", "\n     "))
print("total wall %.1fs" % (time.time() - t0))
