"""C12: definitions that must expand (within the watchdog) and compile.  Raw `lexer!` bodies; each becomes its own binary."""

RAW = {
    # the five-rule definition of the property file (update_backtracks used not to terminate on it)
    "c12_five_rules": "pub L -> u32;\n 'c' = 1,\n ['a'-'d'] \"cc\" = 2,\n ['a'-'d']+ \"ba\" = 3,\n 'c' = 4,\n 'b' = 5,",
    "c12_rewind_cex": "pub L -> u32;\n ['b'-'c'] \"bab\" (['c'-'e'] | \"ab\") = 1,\n 'b' = 2,\n 'a' = 3,\n \"cbaa\" ['b'-'c'] = 4,",
    # right contexts of several shapes
    "c12_ctx_literal": "pub L -> u32;\n 'a' > \"bc\" = 1,\n 'a' = 2,\n 'b' = 3,\n 'c' = 4,",
    "c12_ctx_shapes": "pub L -> u32;\n 'a' > (['a'-'z'] 'x' | 'q') = 1,\n 'b' > ('x'+ 'y'? $) = 2,\n 'c' > (_ # 'd') = 3,\n 'd' > $$ascii_digit* = 4,\n \"ee\" > (\"fg\" | \"fh\" 'i') = 5,\n ['a'-'e'] = 6,",
    "c12_ctx_big_class": "pub L -> u32;\n 'a' > $$alphabetic = 1,\n 'a' > ($$XID_Start $$XID_Continue) = 2,\n 'a' = 3,",
    # bracket sets that repeat a character / overlap
    "c12_repeated_char": "pub L -> u32;\n ['a' 'a'] = 1,\n ['b' 'c' 'b' 'b'-'d' 'c'] 'x' = 2,\n ['x' 'x'-'z' 'y'] = 3,",
    # nested optional / starred operands
    "c12_nested_optional": "pub L -> u32;\n let ws = [' ' '\\t']*;\n \"let\" $ws? '=' = 1,\n ('a'?)? 'b' = 2,\n ('c'*)? 'd' = 3,\n (('e'+)?)* 'f' = 4,\n ('g'?)+ 'h' = 5,",
    # several rule sets, switch / switch_and_return, empty-ish sets
    "c12_rule_sets": "pub L(u32) -> u32;\n rule Init { 'a' => |l| l.switch(LRule::A), 'x' = 1, }\n rule A { 'b' => |l| l.switch_and_return(LRule::B, 2), $ = 9, }\n rule B { 'c' => |l| { *l.state() += 1; l.switch(LRule::Init) }, _ = 3, }\n rule C { \"zz\" = 4, }",
    # large built-in classes, alone and combined
    "c12_builtins": "pub L -> u32;\n $$alphabetic+ = 1,\n $$numeric = 2,\n ($$uppercase | $$lowercase) # $$ascii = 3,\n $$XID_Start $$XID_Continue* '!' = 4,\n $$whitespace = 5,",
    # fallible rules and user state with lifetimes
    "c12_fallible": "pub L -> u32;\n type Error = String;\n 'a' =? |l| l.return_(Err(\"e\".to_string())),\n 'b' =? |l| l.return_(Ok(1)),\n 'c' = 2,",
    # tens of rules
    "c12_many_rules": "pub L -> u32;\n" + "".join(" \"kw%d\" = %d,\n" % (i, i) for i in range(40)) + " ['a'-'z']+ ['0'-'9']* = 100,\n [' ' '\\t' '\\n']+,",
    # concatenation of classes mixing single characters and ranges (code duplication of inlined states must stay moderate)
    "c12_class_chain_8": "pub L -> u32;\n " + " ".join("['a' '0'-'9']" for _ in range(8)) + " = 1,",
}

# KNOWN FINDING (known_findings.txt): code size doubles per concatenated set that mixes characters and ranges, because a
# single-predecessor state reached through a character arm AND a range arm is inlined once per arm.  13 sets do not
# expand + compile within the dedicated 60 s watchdog on this machine (12 sets: ~60 s and 2 GB; 14 sets: > 10 min).
KNOWN_SLOW = {
    "c12_class_chain_13": ("pub L -> u32;\n " + " ".join("['a' '0'-'9']" for _ in range(13)) + " = 1,", 60),
}

# several lexers in one module: generated item names must not clash
MULTI = {
    "c12_two_lexers_tables": ["pub L1 -> u8;\n $$alphabetic '!' = 1,", "pub L2 -> u8;\n $$uppercase '!' = 1,\n 'a' > $$lowercase = 2,"],
    "c12_three_lexers": ["pub A -> u8;\n 'a' > 'b' = 1,\n 'a' = 2,", "pub B -> u8;\n 'a' > 'c' = 1,\n $$numeric+ = 2,", "C -> u8;\n rule Init { 'x' => |l| l.switch(CRule::S), }\n rule S { 'y' = 1, }"],
}
