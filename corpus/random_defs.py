"""Seeded generator of small lexer definitions for the native sweep (vlib/sweep.py).  The `programs` quantifier of the properties is
sampled much more widely than the hand-written corpus can: every definition is a few rules over a tiny alphabet, built from all
operators, with optional right contexts, a second rule set, and the action kinds of the corpus.  Definitions stay inside the
properties' domain: no rule (and no right context) matches the empty string, `$` only ends a rule or a context.
The reference semantics is generated from the same AST by vlib/gen_corpus.py (it shares no code with lexgen)."""
import random
from corpus.defs import c, s, cat, alt, star, plus, opt, cset, rng, ANY, EOF, diff, R, flat, multi

ALPHA = "abc"
# every generic check sweeps every random definition; a failure counts for the properties named in the failed assertion
ALL = ["C01", "C02", "C03", "C04", "C05", "C06", "C07", "C08", "C09", "C10"]


def nullable(r):
    k = r[0]
    if k in ("chr", "set", "any", "eof", "builtin", "diff"):
        return False
    if k == "str":
        return len(r[1]) == 0
    if k in ("star", "opt"):
        return True
    if k == "plus":
        return nullable(r[1])
    if k == "cat":
        return all(nullable(x) for x in r[1:])
    if k == "or":
        return any(nullable(x) for x in r[1:])
    return False


def atom(rnd):
    t = rnd.random()
    if t < 0.45:
        return c(rnd.choice(ALPHA))
    if t < 0.6:
        return s("".join(rnd.choice(ALPHA) for _ in range(2)))
    if t < 0.75:
        a, b = sorted(rnd.sample(ALPHA, 2))
        return cset(rng(a, b)) if rnd.random() < 0.5 else cset(a, b)
    if t < 0.85:
        return ANY
    if t < 0.9:
        return diff(ANY, c(rnd.choice(ALPHA)))
    if t < 0.94:
        return diff(cset(rng("a", "c")), cset(rnd.choice(ALPHA)))
    if t < 0.97:
        # a class with more than nine ranges (search-table path of the generated code); 'a'..'c' are members, '~' is above the last range
        return cset(rng("0", "1"), rng("3", "4"), rng("6", "7"), rng("A", "B"), rng("D", "E"), rng("G", "H"), rng("J", "K"), rng("M", "N"), rng("P", "Q"), rng("a", "c"), rng("x", "z"))
    return cset(rng("a", "c"), rnd.choice(ALPHA))


def regex(rnd, depth):
    if depth <= 0 or rnd.random() < 0.3:
        return atom(rnd)
    t = rnd.random()
    if t < 0.35:
        return cat(regex(rnd, depth - 1), regex(rnd, depth - 1))
    if t < 0.55:
        return alt(regex(rnd, depth - 1), regex(rnd, depth - 1))
    if t < 0.7:
        return star(regex(rnd, depth - 1))
    if t < 0.85:
        return plus(regex(rnd, depth - 1))
    return opt(regex(rnd, depth - 1))


def nonnull(rnd, depth):
    for _ in range(50):
        r = regex(rnd, depth)
        if not nullable(r):
            return r
    return c(rnd.choice(ALPHA))


def rule(rnd, kinds, other=None):
    re_ = nonnull(rnd, 3 if rnd.random() < 0.3 else 2)
    ends_in_eof = False
    if rnd.random() < 0.12:
        re_ = cat(re_, EOF)
        ends_in_eof = True
    ctx = None
    # (a rule that ends in `$` gets no right context: the generated reference models end-of-input as one symbol that `$` reads, which is
    # exact for `$` at the tail of a rule OR of a context but not for both at once; the real lexer accepts `re $ > $`, correctly)
    if not ends_in_eof and rnd.random() < 0.2:
        t = rnd.random()
        ctx = EOF if t < 0.15 else (cat(nonnull(rnd, 1), EOF) if t < 0.25 else nonnull(rnd, 2 if t < 0.7 else 1))
    kind = rnd.choice(kinds)
    if kind in ("switch", "switch_return") and other:
        return R(re_, kind, ctx=ctx, to=other)
    if kind in ("switch", "switch_return"):
        kind = "return"
    return R(re_, kind, ctx=ctx)


def make(seed, count):
    rnd = random.Random(seed)
    out = []
    for i in range(count):
        shape = rnd.random()
        name = "rnd_%d_%d" % (seed, i)
        if shape < 0.6:
            rules = [rule(rnd, ["tok"]) for _ in range(rnd.randint(2, 4))]
            out.append(flat(name, rules, ALL, N=6, m=1))
        elif shape < 0.8:
            kinds = ["return", "return", "skip", "continue", "reset_continue", "reset_return", "ok", "err"]
            rules = [rule(rnd, kinds) for _ in range(rnd.randint(2, 4))]
            if not any(r["kind"] in ("return", "ok") for r in rules):
                rules.append(R(c(rnd.choice(ALPHA)), "return"))
            out.append(flat(name, rules, ALL, N=6, m=4))
        else:
            kinds = ["return", "return", "switch", "switch_return", "skip", "err", "ok"]
            names = ["Init", "B"] + (["C"] if rnd.random() < 0.35 else [])
            if rnd.random() < 0.12:
                names = ["Init"] + ["S%d" % k for k in range(1, 10)]      # ten rule sets: the table-driven switch of the generated code
            sets = []
            for sn in names:
                others = [x for x in names if x != sn]
                rules = [rule(rnd, kinds, rnd.choice(others)) for _ in range(rnd.randint(1, 3) if len(names) <= 3 else 1)]
                if sn == "Init" and not any(r["kind"] in ("switch", "switch_return") for r in rules):
                    rules.append(R(c("c"), "switch_return", to=rnd.choice(others)))
                sets.append((sn, rules))
            out.append(multi(name, sets, ALL, N=6, m=4))
    return out
