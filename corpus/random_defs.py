"""Seeded generator of small lexer definitions for the native sweep (vlib/sweep.py).  The `programs` quantifier of the properties is
sampled much more widely than the hand-written corpus can: every definition is a few rules over a tiny alphabet, built from all
operators, with optional right contexts, a second rule set, and the action kinds of the corpus.  Definitions stay inside the
properties' domain: no rule (and no right context) matches the empty string, `$` only ends a rule or a context.
The reference semantics is generated from the same AST by vlib/gen_corpus.py (it shares no code with lexgen)."""
import random
from corpus.defs import c, s, cat, alt, star, plus, opt, cset, rng, ANY, EOF, diff, R, flat, multi

ALPHA = "abc"


def nullable(r):
    k = r[0]
    if k in ("chr", "set", "any", "eof", "builtin", "diff"):
        return False
    if k == "str":
        return len(r[1]) == 0
    if k in ("star", "opt"):
        return True
    if k == "plus":
        return nullable(r[1])
    if k == "cat":
        return all(nullable(x) for x in r[1:])
    if k == "or":
        return any(nullable(x) for x in r[1:])
    return False


def atom(rnd):
    t = rnd.random()
    if t < 0.45:
        return c(rnd.choice(ALPHA))
    if t < 0.6:
        return s("".join(rnd.choice(ALPHA) for _ in range(2)))
    if t < 0.75:
        a, b = sorted(rnd.sample(ALPHA, 2))
        return cset(rng(a, b)) if rnd.random() < 0.5 else cset(a, b)
    if t < 0.85:
        return ANY
    if t < 0.93:
        return diff(ANY, c(rnd.choice(ALPHA)))
    return cset(rng("a", "c"), rnd.choice(ALPHA))


def regex(rnd, depth):
    if depth <= 0 or rnd.random() < 0.3:
        return atom(rnd)
    t = rnd.random()
    if t < 0.35:
        return cat(regex(rnd, depth - 1), regex(rnd, depth - 1))
    if t < 0.55:
        return alt(regex(rnd, depth - 1), regex(rnd, depth - 1))
    if t < 0.7:
        return star(regex(rnd, depth - 1))
    if t < 0.85:
        return plus(regex(rnd, depth - 1))
    return opt(regex(rnd, depth - 1))


def nonnull(rnd, depth):
    for _ in range(50):
        r = regex(rnd, depth)
        if not nullable(r):
            return r
    return c(rnd.choice(ALPHA))


def rule(rnd, kinds, other=None):
    re_ = nonnull(rnd, 2)
    ends_in_eof = False
    if rnd.random() < 0.12:
        re_ = cat(re_, EOF)
        ends_in_eof = True
    ctx = None
    # (a rule that ends in `$` gets no right context: the generated reference models end-of-input as one symbol that `$` reads, which is
    # exact for `$` at the tail of a rule OR of a context but not for both at once; the real lexer accepts `re $ > $`, correctly)
    if not ends_in_eof and rnd.random() < 0.2:
        ctx = nonnull(rnd, 1) if rnd.random() < 0.8 else EOF
    kind = rnd.choice(kinds)
    if kind in ("switch", "switch_return") and other:
        return R(re_, kind, ctx=ctx, to=other)
    if kind in ("switch", "switch_return"):
        kind = "return"
    return R(re_, kind, ctx=ctx)


def make(seed, count):
    rnd = random.Random(seed)
    out = []
    for i in range(count):
        shape = rnd.random()
        name = "rnd_%d_%d" % (seed, i)
        if shape < 0.6:
            rules = [rule(rnd, ["tok"]) for _ in range(rnd.randint(2, 4))]
            out.append(flat(name, rules, ["C01", "C02", "C04", "C05", "C07", "C08", "C09"], N=6, m=1))
        elif shape < 0.8:
            kinds = ["return", "return", "skip", "continue", "reset_continue", "ok", "err"]
            rules = [rule(rnd, kinds) for _ in range(rnd.randint(2, 4))]
            if not any(r["kind"] in ("return", "ok") for r in rules):
                rules.append(R(c(rnd.choice(ALPHA)), "return"))
            out.append(flat(name, rules, ["C10", "C06", "C07", "C01"], N=6, m=4))
        else:
            kinds = ["return", "return", "switch", "switch_return", "skip"]
            a = [rule(rnd, kinds, "B") for _ in range(rnd.randint(2, 3))]
            b = [rule(rnd, kinds, "Init") for _ in range(rnd.randint(1, 3))]
            if not any(r["kind"] in ("switch", "switch_return") for r in a):
                a.append(R(c("c"), "switch_return", to="B"))
            out.append(multi(name, [("Init", a), ("B", b)], ["C03", "C08", "C05", "C01"], N=6, m=4))
    return out
