"""definitions prepared after the round-3 seeds were written but activated only after the round-3 sweep had been measured"""
from corpus.defs import *  # noqa

def _ten_sets():
    names = ['Init'] + ['S%d' % i for i in range(1, 10)]
    sets = []
    for i, n in enumerate(names):
        nxt = names[(i + 1) % len(names)]
        far = names[(i + 4) % len(names)]
        # every set: "ab" (multi-character literal => inlined states before later entry states) switches on, 'x' returns its own token,
        # 'j' jumps four sets ahead and returns
        sets.append((n, [R(s('ab'), 'switch', to=nxt), R(c('x'), 'return'), R(c('j'), 'switch_return', to=far)]))
    return sets

PENDING = [
    # more than eight rule sets, entry states behind inlined states (a table-driven `switch` must renumber)
    multi('c03_ten_sets', _ten_sets(), ['C03'], N=2, m=2, Nt=3),
    # a fallible rule that returns Err inside a non-Init rule set, and one that switches and returns Err: the rule set must follow the switch only
    multi('c03_err_in_set', [
        ('Init', [R(c('['), 'switch', to='S'), R(c('i'), 'return'), R(c('e'), 'err')]),
        ('S', [R(c('r'), 'return'), R(c('!'), 'err'), R(c(']'), 'switch_return', to='Init')]),
    ], ['C03', 'C07', 'C08'], N=2, m=2, Nt=3),
    # `*` / `?` in the tail of an alternative or of an optional group (their continuation state is shared with a sibling path)
    flat('c02_star_in_alt_tail', [R(cat(c('x'), alt(c('b'), star(c('a'))))), R(cat(c('w'), opt(cat(c('y'), star(c('z')))))), R(c('a')), R(c('z')), R(c('b'))],
         ['C02', 'C01'], N=4, m=1),
    # a literal that shares its successor with a range AND lies inside another range with a different successor
    flat('c02_char_in_foreign_range', [R(cset(rng('a', 'z'), rng('0', '9'))), R(cat(alt(c('c'), cset(rng('0', '9'))), c('y'))), R(cat(alt(c('m'), cset(rng('0', '4'))), c('!')))],
         ['C02', 'C01'], N=2, m=1, Nt=3),
    # reset_match() and return_ in the same action: the token must carry the (empty) span after the reset
    flat('c10_reset_then_return', [R(cat(c('#'), plus(cset(rng('a', 'c')))), 'reset_return'), R(c('a'), 'return'), R(c(' '), 'skip')], ['C10', 'C06'], N=3, m=1),
]
