"""The corpus: lexer definitions as ASTs (see vlib/gen_corpus.py for the format), each tagged with
   props : the properties whose checks run it
   N, m  : window and max actions per call for the quick tier (thorough tier: N+1 unless 'Nt' given)
   width : True -> the harness runs with the real unicode-width function (location columns exact), else a pure stand-in
The reference semantics is generated from the same AST by vlib/gen_corpus.py and shares no code with lexgen.
"""

def c(x): return ('chr', x)
def s(x): return ('str', x)
def cat(*xs): return ('cat',) + xs
def alt(*xs): return ('or',) + xs
def star(x): return ('star', x)
def plus(x): return ('plus', x)
def opt(x): return ('opt', x)
def cset(*xs): return ('set', list(xs))
def rng(a, b): return (a, b)
ANY = ('any',)
EOF = ('eof',)
def var(n): return ('var', n)
def diff(a, b): return ('diff', a, b)
def raw(text, ast): return ('raw', text, ast)

def R(re, kind='tok', ctx=None, to=None):
    return dict(re=re, kind=kind, ctx=ctx, to=to)

def flat(name, rules, props, N=4, m=1, lets=(), **kw):
    d = dict(name=name, flat=True, sets=[('Init', rules)], lets=list(lets), props=props, N=N, m=m)
    d.update(kw)
    return d

def multi(name, sets, props, N=3, m=2, lets=(), **kw):
    d = dict(name=name, flat=False, sets=sets, lets=list(lets), props=props, N=N, m=m)
    d.update(kw)
    return d


DEFS = [
    # ---------------------------------------------------------------- C01: longest match, priority, rewinding
    flat('c01_rewind_simple', [R(cat(plus(c('a')), c('b'))), R(c('a')), R(cset('b', 'c'))], ['C01', 'C09'], N=4),
    flat('c01_kw_ident', [R(s('if')), R(plus(cset(rng('a', 'z')))), R(c(' '), 'skip')], ['C01', 'C10'], N=2, m=2, Nt=3),
    flat('c01_nested_prefixes', [R(s('abab')), R(s('ab')), R(c('a')), R(c('b'))], ['C01'], N=4),
    # join reachable with and without an earlier accept + cycle (the shape behind the old update_backtracks defect)
    flat('c01_join_cycle', [R(c('c')), R(cat(cset(rng('a', 'd')), s('cc'))), R(cat(plus(cset(rng('a', 'd'))), s('ba'))), R(c('b'))],
         ['C01', 'C12'], N=3, Nt=4),
    # property-file counterexample: needs 5 characters ("bbabx")
    flat('c01_property_cex', [R(cat(cset(rng('b', 'c')), s('bab'), alt(cset(rng('c', 'e')), s('ab')))), R(c('b')), R(c('a')),
                              R(cat(s('cbaa'), cset(rng('b', 'c'))))], ['C01'], N=5, tier='thorough'),
    # accepting state whose rules all carry a right context, between a shorter match and a longer rule
    flat('c01_ctx_only_state', [R(c('a')), R(s('ab'), ctx=c('x')), R(s('abcd')), R(c('b')), R(c('c')), R(c('x'))], ['C01', 'C04'], N=4),
    # shared tail: a state that may rewind although the path taken recorded no match
    flat('c01_shared_tail', [R(c('a'), 'return'), R(cat(cset('a', 'b'), c('x'), c('y')), 'return'), R(c('z'), 'return')],
         ['C01', 'C06', 'C07', 'C08'], N=4),

    # ---------------------------------------------------------------- C02: operators
    flat('c02_plus_in_alt', [R(cat(alt(plus(c('a')), c('b')), c('c'))), R(c('a')), R(c('b')), R(c('c'))], ['C02'], N=4),
    flat('c02_opt_group', [R(cat(c('x'), opt(cat(c('y'), plus(c('z')))))), R(c('z')), R(c('y'))], ['C02'], N=4),
    flat('c02_any_ranges_literals', [R(cat(ANY, c('b'))), R(cset(rng('a', 'c'))), R(cat(c('a'), c('a'))), R(c('z'))], ['C01', 'C02', 'C11'], N=3),
    flat('c02_overlapping_ranges', [R(cat(cset(rng('a', 'f')), cset(rng('d', 'k')))), R(cset(rng('a', 'c'), rng('b', 'e'))),
                                    R(cat(star(c('x')), c('y')))], ['C02', 'C11'], N=3),
    flat('c02_nested_repetition', [R(cat(star(opt(c('a'))), c('b'))), R(plus(cat(c('a'), star(c('c'))))), R(c('c'))], ['C02'], N=4),
    # equivalent spellings: same language, different NFA constructions; the reference is the same by construction
    flat('c02_eq_plus', [R(cat(plus(s('ab')), c('c'))), R(c('a')), R(c('b'))], ['C02'], N=4),
    flat('c02_eq_plus_expanded', [R(cat(cat(c('a'), c('b')), star(cat(c('a'), c('b'))), c('c'))), R(c('a')), R(c('b'))], ['C02'], N=4),
    flat('c02_eq_var', [R(cat(plus(var('ab')), c('c'))), R(c('a')), R(c('b'))], ['C02', 'C16x'], N=4, lets=[('ab', cat(c('a'), c('b')))]),
    flat('c02_eq_alt_ab', [R(cat(alt(c('a'), s('ab')), c('c'))), R(c('a')), R(c('b'))], ['C02'], N=3),
    flat('c02_eq_alt_ba', [R(cat(alt(s('ab'), c('a')), c('c'))), R(c('a')), R(c('b'))], ['C02'], N=3),
    # precedence-sensitive spellings printed verbatim (README: `'a' 'b' | 'c'+` is (('a' 'b') | ('c'+)); `#` binds tighter than concatenation)
    flat('c02_raw_precedence', [R(raw("'a' 'b' | 'c'+", alt(cat(c('a'), c('b')), plus(c('c'))))),
                                R(raw("_ # 'b' 'c'", cat(diff(ANY, c('b')), c('c')))), R(c('b'))], ['C02'], N=3),

    # ---------------------------------------------------------------- C11: class algebra through the macro (one character window is complete)
    flat('c11_diff_multi_piece', [R(diff(cset(rng('0', '5'), rng('7', '9')), cset(rng('0', '8'))))], ['C11'], N=1),
    flat('c11_diff_inside_piece', [R(diff(cset(rng('0', '5'), rng('7', '9')), cset(rng('3', '8'))))], ['C11'], N=1),
    flat('c11_chained_diff', [R(diff(diff(cset(rng('a', 'f'), rng('m', 'r'), rng('x', 'z')), c('a')), cset(rng('e', 'y'))))], ['C11'], N=1),
    flat('c11_union_diff_any', [R(diff(alt(diff(ANY, cset(rng('a', 'z'))), cset(rng('m', 'p'))), cset('n', 'é')))], ['C11'], N=1),
    # bracket sets as operands of `#` are compiled by regex_to_range_map (not by add_re): nested, staggered, repeated and single-character pieces
    flat('c11_nested_pieces', [R(diff(cset(rng('a', 'z'), rng('e', 'k')), c('x')))], ['C11'], N=1),
    flat('c11_char_inside_range', [R(diff(cset(rng('0', '9'), '5'), c('0')))], ['C11'], N=1),
    flat('c11_unsorted_overlapping', [R(diff(diff(cset(rng('m', 'p'), rng('a', 'z'), 'c'), cset(rng('a', 'b'))), c('z')))], ['C11'], N=1),
    flat('c11_staggered', [R(diff(cset(rng('a', 'k'), rng('e', 'z'), rng('c', 'f')), cset('x', rng('a', 'b'))))], ['C11'], N=1),
    flat('c11_removed_set_overlaps', [R(diff(cset(rng('a', 'z')), cset(rng('c', 'f'), rng('e', 'k'), 'j', rng('x', 'z'), 'a')))], ['C11'], N=1),
    flat('c11_var_operands', [R(diff(alt(var('lo'), var('dg')), var('vw')))], ['C11'], N=1,
         lets=[('lo', cset(rng('a', 'z'))), ('dg', cset(rng('0', '9'))), ('vw', cset('a', 'e', 'i', 'o', 'u', rng('3', '5')))]),
    flat('c11_adjacent_pieces', [R(diff(cset(rng('a', 'c'), rng('d', 'f'), 'g'), cset('d')))], ['C11'], N=1),
    flat('c11_builtin_minus_range', [R(diff(('builtin', 'ascii_alphanumeric'), cset(rng('5', 'c'))))], ['C11'], N=1),

    # ---------------------------------------------------------------- C03: rule sets
    multi('c03_three_sets', [
        ('Init', [R(c('a'), 'switch', to='A'), R(c('b'), 'switch_return', to='B'), R(c('x'), 'return')]),
        ('A', [R(c('x'), 'return'), R(c('a'), 'switch', to='B'), R(c('i'), 'switch_return', to='Init')]),
        ('B', [R(c('x'), 'return'), R(c('b'), 'continue'), R(c('i'), 'switch', to='Init')]),
    ], ['C03', 'C10'], N=3, m=2),
    # rule sets whose first states are terminal (dropped by simplify) / single-predecessor (inlined), declared in a different order
    multi('c03_inlined_dropped', [
        ('Init', [R(s('ab'), 'switch', to='Z'), R(c('q'), 'return')]),
        ('Z', [R(c('q'), 'switch_return', to='M')]),
        ('M', [R(cat(c('q'), c('r')), 'return'), R(c('q'), 'switch', to='Init')]),
    ], ['C03'], N=2, m=2, Nt=3),

    # ---------------------------------------------------------------- C04: right contexts
    flat('c04_literal_ctx', [R(c('a'), ctx=s('bc')), R(c('a')), R(c('b')), R(c('c'))], ['C04', 'C12'], N=4),
    flat('c04_char_vs_range_in_ctx', [R(c('a'), ctx=alt(cat(cset(rng('a', 'z')), c('x')), c('q'))), R(c('a')), R(cset(rng('b', 'z'))), R(c('!'))],
         ['C04'], N=3),
    flat('c04_eof_ctx', [R(c('a'), ctx=EOF), R(c('a')), R(c('b'))], ['C04', 'C05'], N=3),
    flat('c04_negative_ctx', [R(c('a'), ctx=diff(ANY, c('b'))), R(c('a')), R(c('b'))], ['C04'], N=3),
    flat('c04_nullable_ctx', [R(c('a'), ctx=star(c('b'))), R(s('ab'))], ['C04'], N=3),
    flat('c04_shorter_wins', [R(s('ab'), ctx=c('x')), R(c('a'), ctx=cat(c('b'), star(c('b')), c('y'))), R(c('a')), R(c('b')), R(c('x')), R(c('y'))],
         ['C04', 'C01'], N=4),
    flat('c04_ctx_not_first', [R(s('ab')), R(c('a'), ctx=plus(cset('c', 'd'))), R(c('a'), ctx=c('b')), R(cset(rng('a', 'd')))], ['C04'], N=3),

    # ---------------------------------------------------------------- C05: end of input
    flat('c05_dollar_in_init', [R(EOF, 'return'), R(s('ab'), 'return')], ['C05', 'C09'], N=3),
    flat('c05_dollar_preferred', [R(c('a'), 'return'), R(cat(c('a'), EOF), 'return'), R(c('b'), 'skip')], ['C05'], N=3, m=2),
    multi('c05_sets', [
        ('Init', [R(c('a'), 'switch', to='S'), R(c('x'), 'return')]),
        ('S', [R(c('s'), 'return'), R(cat(c('t'), EOF), 'return'), R(c('q'), 'switch', to='Init')]),
        ('T', [R(EOF, 'return'), R(c('t'), 'switch', to='S')]),
    ], ['C05', 'C03'], N=3, m=2),

    # ---------------------------------------------------------------- C06: locations with the real width function
    flat('c06_widths', [R(plus(cset(rng('a', 'z'))), 'return'), R(cset('\n', '\t', ' '), 'skip'), R(ANY, 'return')], ['C06'], N=2, m=1, Nt=2, mt=2, width=True),
    flat('c06_rewind_widths', [R(cat(plus(ANY), c('!')), 'return'), R(ANY, 'return')], ['C06'], N=3, m=1, width=True),

    # ---------------------------------------------------------------- C07: errors
    flat('c07_fallible', [R(s('xy'), 'err'), R(c('i'), 'tok'), R(c('x'), 'ok'), R(c('c'), 'continue')], ['C07', 'C10'], N=3, m=2),
    flat('c07_shared_tail', [R(c('x')), R(cat(alt(c('x'), s('wq')), c('y'), c('z')))], ['C07', 'C08'], N=4),
    flat('c07_ctx_fail', [R(c('a'), ctx=c('b')), R(s('ac'))], ['C07', 'C04'], N=3),
    flat('c07_accumulated', [R(c('a'), 'continue'), R(c('b'), 'return'), R(cat(c('c'), c('d')), 'return')], ['C07', 'C10'], N=3, m=3),

    # ---------------------------------------------------------------- C08: recovery
    multi('c08_recover', [
        ('Init', [R(c('i'), 'return'), R(c('['), 'switch', to='R')]),
        ('R', [R(c('r'), 'return'), R(c(']'), 'switch', to='Init'), R(cat(c('x'), c('y')), 'return')]),
    ], ['C08', 'C03'], N=3, m=2),

    # ---------------------------------------------------------------- C10: action protocol
    flat('c10_kinds_a', [R(c('s'), 'skip'), R(c('c'), 'continue'), R(c('t'), 'return'), R(s('tt'), 'return')], ['C10'], N=2, m=2, Nt=3),
    flat('c10_kinds_b', [R(c('r'), 'reset_continue'), R(c('c'), 'continue'), R(c('k'), 'tok'), R(s('ck'), 'return')], ['C10'], N=2, m=2, Nt=3),
    flat('c10_kinds_all', [R(c('s'), 'skip'), R(c('c'), 'continue'), R(c('r'), 'reset_continue'), R(c('t'), 'return'), R(c('k'), 'tok'),
                           R(s('tt'), 'return')], ['C10'], N=2, m=3, tier='thorough', Nt=3),
    # a shorter candidate's saved position must not outlive the selection of a longer rule whose action continues
    flat('c10_stale_accept', [R(c('-'), 'return'), R(s('--'), 'continue'), R(c('b'), 'return')], ['C10', 'C03', 'C01', 'C07'], N=2, m=2, Nt=3),
    flat('c10_stale_accept_tail', [R(c('-'), 'return'), R(s('--'), 'continue'), R(c('a'), 'return'), R(cat(cset('a', 'b'), c('x'), c('y')), 'return')],
         ['C10', 'C01'], N=3, m=2, tier='sweep', Nt=3),   # CBMC needs more than 20 minutes on it; swept natively (window 6)
]

DEFS += [
    # ---------------------------------------------------------------- more shapes of generated code (thorough tier unless noted)
    # ten ranges to one non-accepting target: the binary-search table shape inside a step harness (also in a right context)
    flat('c02_table_shape', [R(cat(cset(rng('a', 'b'), rng('d', 'e'), rng('g', 'h'), rng('j', 'k'), rng('m', 'n'), rng('p', 'q'), rng('s', 't'), rng('v', 'w'), rng('y', 'z'),
                                        rng('0', '4'), rng('6', '9')), c('!'))), R(cset(rng('a', 'z'), rng('0', '9')))], ['C02', 'C13', 'C09'], N=2, m=1, Nt=3, unwind=12),
    flat('c04_table_in_ctx', [R(c('x'), ctx=cat(cset(rng('a', 'b'), rng('d', 'e'), rng('g', 'h'), rng('j', 'k'), rng('m', 'n'), rng('p', 'q'), rng('s', 't'), rng('v', 'w'), rng('y', 'z'),
                                                     rng('0', '4'), rng('6', '9')), c('!'))), R(c('x')), R(ANY)], ['C04'], N=3, m=1, unwind=12, tier='thorough', Nt=3),
    # a state with more than 8 range transitions AND character transitions on code points at the start / end / inside of those ranges
    flat('c02_chars_vs_many_ranges', [R(plus(cset(rng('a', 'b'), rng('d', 'e'), rng('g', 'h'), rng('j', 'k'), rng('m', 'n'), rng('p', 'q'), rng('s', 't'), rng('v', 'w'), rng('y', 'z'), rng('0', '4'), rng('6', '9')))), R(s('b!')), R(s('w?')), R(s('0.'))], ['C02', 'C01'], N=2, m=1, Nt=3, unwind=12),
    # rule-set-local `let`s with the same name bound to different regexes, both used as right contexts
    multi('c04_local_lets', [
        ('Init', [R(c('a'), 'return', ctx=var('term')), R(c('a'), 'return'), R(c('{'), 'switch_return', to='B'), R(cset(';', ':'), 'return')]),
        ('B', [R(c('a'), 'return', ctx=var('term')), R(c('a'), 'return'), R(c('}'), 'switch_return', to='Init'), R(cset(';', ':'), 'return')]),
    ], ['C04', 'C03'], N=2, m=1, Nt=3, set_lets={'Init': [('term', c(';'))], 'B': [('term', c(':'))]}),
    # skipped text directly before the end of input, then a `$` rule / a failure that looks at the match start
    flat('c10_skip_then_eof', [R(c(' '), 'skip'), R(EOF, 'return'), R(c('a'), 'return'), R(cat(c('('), c(')')), 'return')], ['C10', 'C05', 'C06'], N=2, m=2, mt=3),
    # the Default-state constructors (`new`, `new_from_iter`) on a definition with a `$` rule in Init (empty input included)
    flat('c14_new_from_iter', [R(EOF, 'return'), R(plus(cset(rng('a', 'z'))), 'return')], ['C14'], N=2, m=1, via='new_from_iter'),
    flat('c14_new_str', [R(EOF, 'return'), R(plus(cset(rng('a', 'z'))), 'return'), R(ANY, 'return')], ['C14'], N=1, m=1, Nt=2, via='new', width=True, unwind=8),
    # comment-like loop over a complemented class, shares its first character with an operator
    flat('c01_comment_loop', [R(cat(s('/*'), star(diff(ANY, c('*'))), s('*/')), 'return'), R(c('/'), 'return'), R(c('*'), 'return'), R(ANY, 'return')], ['C01', 'C02'], N=4, m=1, tier='thorough', Nt=5),
    # long literal sharing prefixes with shorter literals and an identifier class
    flat('c01_literal_prefixes', [R(s('abc')), R(s('ab')), R(s('abd')), R(plus(cset(rng('a', 'd')))), R(c('e'))], ['C01'], N=3, m=1, tier='thorough', Nt=4),
    # four rule sets, entry states behind inlined and dropped states, switch in both directions, failure in a deep set
    multi('c03_four_sets', [
        ('Init', [R(s('ab'), 'switch', to='B'), R(c('c'), 'switch_return', to='C'), R(c('x'), 'return')]),
        ('B', [R(c('x'), 'return'), R(s('xy'), 'switch', to='C')]),
        ('C', [R(c('x'), 'switch_return', to='D'), R(cat(c('y'), c('z')), 'return')]),
        ('D', [R(c('x'), 'switch', to='Init'), R(EOF, 'return')]),
    ], ['C03', 'C08'], N=2, m=2, tier='thorough', Nt=3),
    # ---------------------------------------------------------------- C09: termination / progress only (no reference): next() returns within the unwinding bound
    flat('c09_eof_under_repetition', [R(plus(alt(c('\n'), EOF)), 'return'), R(plus(cset(rng('a', 'z'))), 'return')], ['C09'], N=3, m=1, form='termination', unwind=10),
    flat('c09_string_or_skip', [R(cat(c('"'), star(diff(ANY, c('"'))), c('"')), 'return'), R(ANY, 'skip')], ['C09'], N=2, m=3, form='termination', unwind=12, Nt=3),
    multi('c09_sets_continue', [
        ('Init', [R(c('a'), 'switch', to='S'), R(c('b'), 'return')]),
        ('S', [R(c('s'), 'continue'), R(c('t'), 'switch_return', to='Init')]),
    ], ['C09'], N=2, m=3, form='termination', unwind=9, Nt=3),
    # ---------------------------------------------------------------- C15: the lexer under test is a clone taken at a call boundary
    multi('c15_clone_sets', [
        ('Init', [R(c('a'), 'switch_return', to='S'), R(plus(cset(rng('x', 'z'))), 'return')]),
        ('S', [R(c('s'), 'return'), R(EOF, 'return'), R(c('q'), 'switch_return', to='Init'), R(c('e'), 'err')]),
    ], ['C15'], N=3, m=1, via='clone', attrs='#[derive(Clone)]'),
    flat('c15_clone_rewind', [R(cat(plus(c('a')), c('b')), 'return'), R(c('a'), 'return'), R(EOF, 'return')], ['C15'], N=3, m=1, via='clone',
         attrs='#[derive(Clone)]'),
    # clone AND original both take the step (catches state shared outside the lexer struct)
    flat('c15_clone_both_step', [R(cat(plus(c('a')), c('b')), 'return'), R(c('a'), 'return'), R(c('c'), 'return')], ['C15'], N=2, m=1, Nt=2, via='clone2',
         attrs='#[derive(Clone)]', unwind=7),
    # ---------------------------------------------------------------- C14: the lexer is built from a &str with the same characters (real width function)
    flat('c14_str_input', [R(plus(cset(rng('a', 'z'))), 'return'), R(cat(ANY, c('!')), 'return'), R(ANY, 'return')], ['C14'],
         N=2, m=1, Nt=2, via='str', width=True, unwind=10),
    flat('c14_str_input_skip', [R(cset(' ', '\n', '\t'), 'skip'), R(ANY, 'return')], ['C14'], N=2, m=2, Nt=2, via='str', width=True, unwind=12),
]


def _ten_sets():
    names = ['Init'] + ['S%d' % i for i in range(1, 10)]
    sets = []
    for i, n in enumerate(names):
        nxt = names[(i + 1) % len(names)]
        far = names[(i + 4) % len(names)]
        # every set: "ab" (multi-character literal => inlined states before later entry states) switches on, 'x' returns its own token,
        # 'j' jumps four sets ahead and returns
        sets.append((n, [R(s('ab'), 'switch_return', to=nxt), R(c('x'), 'return'), R(c('j'), 'switch_return', to=far)]))
    return sets


# ---------------------------------------------------------------- definitions added after the round-3 seeds had been measured (DESIGN 11.6)
DEFS += [
    # more than eight rule sets, entry states behind inlined states (a table-driven `switch` must renumber)
    multi('c03_ten_sets', _ten_sets(), ['C03'], N=2, m=1, Nt=3),
    # a fallible rule that returns Err inside a non-Init rule set, and one that switches and returns Err: the rule set must follow the switch only
    multi('c03_err_in_set', [
        ('Init', [R(c('['), 'switch', to='S'), R(c('i'), 'return'), R(c('e'), 'err')]),
        ('S', [R(c('r'), 'return'), R(c('!'), 'err'), R(c(']'), 'switch_return', to='Init')]),
    ], ['C03', 'C07', 'C08'], N=2, m=2, Nt=3),
    # `*` / `?` in the tail of an alternative or of an optional group (their continuation state is shared with a sibling path)
    flat('c02_star_in_alt_tail', [R(cat(c('x'), alt(c('b'), star(c('a'))))), R(cat(c('w'), opt(cat(c('y'), star(c('z')))))), R(c('a')), R(c('z')), R(c('b'))],
         ['C02', 'C01'], N=3, m=1, Nt=4),
    # a literal that shares its successor with a range AND lies inside another range with a different successor
    flat('c02_char_in_foreign_range', [R(cset(rng('a', 'z'), rng('0', '9'))), R(cat(alt(c('c'), cset(rng('0', '9'))), c('y'))), R(cat(alt(c('m'), cset(rng('0', '4'))), c('!')))],
         ['C02', 'C01'], N=2, m=1, Nt=3),
    # reset_match() and return_ in the same action: the token must carry the (empty) span after the reset
    flat('c10_reset_then_return', [R(cat(c('#'), plus(cset(rng('a', 'c')))), 'reset_return'), R(c('a'), 'return'), R(c(' '), 'skip')], ['C10', 'C06'], N=3, m=1),
]


def by_prop(prop, tier='quick'):
    """definitions for the Kani harnesses of a tier (tier='sweep' definitions are too heavy for CBMC and are only swept natively)"""
    out = []
    for d in DEFS:
        if prop in d['props'] and d.get('tier') != 'sweep' and (tier == 'thorough' or d.get('tier') != 'thorough'):
            out.append(d)
    return out


def by_prop_all(prop):
    """every definition of the property, whatever its tier (the native sweep runs them all)"""
    return [d for d in DEFS if prop in d['props']]
