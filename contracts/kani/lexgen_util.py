"""Kani function contracts for the run-time library (crates/lexgen_util/src/lib.rs).

CONTRACTS: attribute text spliced in front of `pub fn <name>(` of the real file in the scratch copy
           (anchor = the function item found by name inside the given impl block).
SPEC_MOD / HARNESS_MOD: appended to the scratch copy of lib.rs under #[cfg(kani)].

All run-time functions are loop-free, so every harness below is a complete proof over a fully
symbolic lexer state (no unwinding bound is involved; N only sizes the array behind the iterator).
"""

IMPL = "impl<'input, I: Iterator<Item = char> + Clone, T, S, E, W> Lexer<'input, I, T, S, E, W>"

# headroom preconditions: machine arithmetic of the location counters
HEADROOM = ("self.current_match_end.byte_idx <= usize::MAX - 4 && self.current_match_end.col <= u32::MAX - 4 "
            "&& self.current_match_end.line < u32::MAX")

CONTRACTS = {
    "next": [
        "#[cfg_attr(kani, kani::requires(%s))]" % HEADROOM,
        # C06: the end location advances exactly by the README rule; None changes nothing
        "#[cfg_attr(kani, kani::ensures(|r: &Option<char>| match r { "
        "None => self.current_match_end == old(self.current_match_end), "
        "Some(c) => self.current_match_end == verif_spec::advance(old(self.current_match_end), *c) }))]",
        # frame: start, saved match, user state, rule-set registers, done flag untouched
        "#[cfg_attr(kani, kani::modifies(&self.current_match_end, &self.__iter))]",
    ],
    "peek": [
        "#[cfg_attr(kani, kani::modifies(&self.__iter))]",
    ],
    "backtrack": [
        # C07 C08 (None branch), C01 C05 C06 (Some branch)
        "#[cfg_attr(kani, kani::ensures(|r| r.is_err() == old(self.last_match.is_none()) && self.last_match.is_none() && match r { "
        "Err(e) => e.location == old(self.current_match_start) && matches!(e.kind, LexerErrorKind::InvalidToken) "
        "&& self.__state == 0 && self.__initial_state == 0 && self.__done == old(self.__done) "
        "&& self.current_match_start == old(self.current_match_start) && self.current_match_end == old(self.current_match_end) "
        "&& self.iter_loc == old(self.iter_loc), "
        "Ok(_) => Some(self.current_match_start) == old(self.last_match.as_ref().map(|m| m.0)) "
        "&& Some(self.current_match_end) == old(self.last_match.as_ref().map(|m| m.3)) "
        "&& Some(self.iter_loc) == old(self.last_match.as_ref().map(|m| m.3)) "
        "&& !self.__done && self.__state == old(self.__state) && self.__initial_state == old(self.__initial_state) }))]",
        "#[cfg_attr(kani, kani::modifies(&self.__state, &self.__initial_state, &self.__done, &self.current_match_start, "
        "&self.current_match_end, &self.__iter, &self.iter_loc, &self.last_match))]",
    ],
    "reset_accepting_state": [
        "#[cfg_attr(kani, kani::ensures(|_r| self.last_match.is_none()))]",
        "#[cfg_attr(kani, kani::modifies(&self.last_match))]",
    ],
    "set_accepting_state": [
        # C01: exactly the current position is recorded, with the given action
        "#[cfg_attr(kani, kani::ensures(|_r| self.last_match.as_ref().map(|m| (m.0, m.3, m.2 as usize)) "
        "== Some((self.current_match_start, self.current_match_end, semantic_action_fn as usize))))]",
        "#[cfg_attr(kani, kani::modifies(&self.last_match))]",
    ],
    "reset_match": [
        # C10: empties the current match at its end
        "#[cfg_attr(kani, kani::ensures(|_r| self.current_match_start == old(self.current_match_end) "
        "&& self.current_match_end == old(self.current_match_end)))]",
        "#[cfg_attr(kani, kani::modifies(&self.current_match_start))]",
    ],
    "match_loc": [
        "#[cfg_attr(kani, kani::ensures(|r: &(Loc, Loc)| r.0 == self.current_match_start && r.1 == self.current_match_end))]",
    ],
}

SPEC_MOD = r'''
#[cfg(kani)]
pub mod verif_spec {
    use super::*;
    /// the README location rule: newline starts a line, tab counts 4 columns, others their display width
    pub fn advance(loc: Loc, c: char) -> Loc {
        let mut l = loc;
        l.byte_idx += c.len_utf8();
        if c == '\n' { l.line += 1; l.col = 0; }
        else if c == '\t' { l.col += 4; }
        else { l.col += UnicodeWidthChar::width(c).unwrap_or(1) as u32; }
        l
    }
}
'''

# proof_for_contract harnesses: spliced (inside `mod verif`) only into the copy that carries the contract attributes
CONTRACT_HARNESSES = r'''
    #[kani::proof_for_contract(Lexer::<'static, ArrIter, u8, u32, u8, Wr>::next)]
    fn contract_next() {
        let mut l = any_lexer();
        let before = rest(&l.__iter);
        let us = l.user_state; let st = (l.__state, l.__initial_state, l.__done, l.current_match_start, l.iter_loc);
        let lm = l.last_match.as_ref().map(|m| (m.0, rest(&m.1), m.2 as usize, m.3));
        let r = l.next();
        kani::cover!(r.is_some(), "next: a character is read");
        kani::cover!(r.is_none(), "next: end of input");
        kani::cover!(r == Some('\n')); kani::cover!(r == Some('\t')); kani::cover!(r == Some('\u{301}')); kani::cover!(r == Some('\u{4E16}'));
        // the character returned is the first remaining one and the iterator moved by exactly one
        assert!(r == before.0[0]);
        let after = rest(&l.__iter);
        assert!(after.0[0] == before.0[1] && after.0[1] == before.0[2] && after.0[2].is_none() || r.is_none() && after.0 == before.0);
        // frame (also enforced by the modifies clause)
        assert!(l.user_state == us && (l.__state, l.__initial_state, l.__done, l.current_match_start, l.iter_loc) == st);
        assert!(l.last_match.as_ref().map(|m| (m.0, rest(&m.1), m.2 as usize, m.3)) == lm);
    }

    #[kani::proof_for_contract(Lexer::<'static, ArrIter, u8, u32, u8, Wr>::peek)]
    fn contract_peek() {
        let mut l = any_lexer();
        let before = rest(&l.__iter);
        let locs = (l.current_match_start, l.current_match_end, l.iter_loc);
        let r = l.peek();
        kani::cover!(r.is_some()); kani::cover!(r.is_none());
        assert!(r == before.0[0]);                 // C10: peek is the first unconsumed character
        assert!(rest(&l.__iter) == before);        // and consumes nothing
        assert!((l.current_match_start, l.current_match_end, l.iter_loc) == locs);
    }

    #[kani::proof_for_contract(Lexer::<'static, ArrIter, u8, u32, u8, Wr>::backtrack)]
    fn contract_backtrack() {
        let mut l = any_lexer();
        let us = l.user_state;
        let saved = l.last_match.as_ref().map(|m| (rest(&m.1), m.2 as usize));
        let cur = rest(&l.__iter);
        let r = l.backtrack();
        kani::cover!(r.is_ok(), "backtrack: rewind"); kani::cover!(r.is_err(), "backtrack: nothing saved");
        assert!(l.user_state == us);
        match r {
            Ok(f) => { let s = saved.unwrap(); assert!(f as usize == s.1); assert!(rest(&l.__iter) == s.0); }   // C01: the saved action and position
            Err(_) => { assert!(saved.is_none()); assert!(rest(&l.__iter) == cur); }
        }
    }

    #[kani::proof_for_contract(Lexer::<'static, ArrIter, u8, u32, u8, Wr>::set_accepting_state)]
    fn contract_set_accepting_state() {
        let mut l = any_lexer();
        let f: Act = if kani::any() { act_a } else { act_b };
        let cur = rest(&l.__iter);
        l.set_accepting_state(f);
        assert!(l.last_match.as_ref().map(|m| rest(&m.1)) == Some(cur));   // the iterator saved is the current one
        assert!(rest(&l.__iter) == cur);
    }

    #[kani::proof_for_contract(Lexer::<'static, ArrIter, u8, u32, u8, Wr>::reset_accepting_state)]
    fn contract_reset_accepting_state() { let mut l = any_lexer(); l.reset_accepting_state(); }

    #[kani::proof_for_contract(Lexer::<'static, ArrIter, u8, u32, u8, Wr>::reset_match)]
    fn contract_reset_match() { let mut l = any_lexer(); l.reset_match(); }

    #[kani::proof_for_contract(Lexer::<'static, ArrIter, u8, u32, u8, Wr>::match_loc)]
    fn contract_match_loc() { let l = any_lexer(); let _ = l.match_loc(); }
'''

# helper items and plain harnesses; the marker line is replaced by CONTRACT_HARNESSES in the contract copy
HARNESS_MOD = r'''
#[cfg(kani)]
mod verif {
    use super::*;
    pub const N: usize = 3;
    #[derive(Clone, PartialEq, Eq)]
    pub struct ArrIter { pub a: [char; N], pub n: usize, pub i: usize }
    impl Iterator for ArrIter {
        type Item = char;
        fn next(&mut self) -> Option<char> { if self.i < self.n { let c = self.a[self.i]; self.i += 1; Some(c) } else { None } }
    }
    #[derive(Clone)]
    pub struct Wr;
    type Act = for<'l> fn(&'l mut Wr) -> SemanticActionResult<Result<u8, u8>>;
    type L = Lexer<'static, ArrIter, u8, u32, u8, Wr>;
    fn act_a(_w: &mut Wr) -> SemanticActionResult<Result<u8, u8>> { SemanticActionResult::Continue }
    fn act_b(_w: &mut Wr) -> SemanticActionResult<Result<u8, u8>> { SemanticActionResult::Return(Ok(1)) }

    fn any_loc() -> Loc { Loc { line: kani::any(), col: kani::any(), byte_idx: kani::any() } }
    fn any_iter(a: [char; N], n: usize) -> Peekable<ArrIter> {
        let i: usize = kani::any(); kani::assume(i <= n);
        let mut p = ArrIter { a, n, i }.peekable();
        if kani::any() { let _ = p.peek(); }   // Peekable with or without a buffered element
        p
    }
    /// remaining characters of a (possibly peeked) iterator, observed on a clone
    fn rest(p: &Peekable<ArrIter>) -> ([Option<char>; N], bool) {
        let mut q = p.clone();
        let r = [q.next(), q.next(), q.next()];
        (r, q.next().is_none())
    }
    /// fully symbolic lexer: every field unconstrained (the saved match absent or arbitrary)
    fn any_lexer() -> L {
        let a: [char; N] = kani::any();
        let n: usize = kani::any(); kani::assume(n <= N);
        let mut l = L::new_from_iter_with_state(ArrIter { a, n, i: 0 }, kani::any());
        l.__iter = any_iter(a, n);
        l.__state = kani::any(); l.__done = kani::any(); l.__initial_state = kani::any();
        l.current_match_start = any_loc(); l.current_match_end = any_loc(); l.iter_loc = any_loc();
        if kani::any() {
            let f: Act = if kani::any() { act_a } else { act_b };
            l.last_match = Some((any_loc(), any_iter(a, n), f, any_loc()));
        }
        l
    }
    /// cheap pure stand-in for the display-width function, used only by the harnesses that are parametric in it
    pub fn stub_width(c: char) -> Option<usize> { let k = (c as u32) & 3; if k == 3 { None } else { Some(k as usize) } }
    fn headroom(l: &L) -> bool {
        l.current_match_end.byte_idx <= usize::MAX - 4 && l.current_match_end.col <= u32::MAX - 4 && l.current_match_end.line < u32::MAX
    }

    // ---- next ------------------------------------------------------------------------------------

    // ---- peek ------------------------------------------------------------------------------------

    // ---- backtrack -------------------------------------------------------------------------------


    // ---- per-property obligations on backtrack (one conjunct each, so that a failure names its property) -----
    #[kani::proof]
    fn backtrack_err_is_invalid_token_at_lexeme_start() {          // C07
        let mut l = any_lexer();
        let start = l.current_match_start; let none = l.last_match.is_none();
        let r = l.backtrack();
        kani::cover!(r.is_err());
        match r { Err(e) => { assert!(none); assert!(e.location == start); assert!(matches!(e.kind, LexerErrorKind::InvalidToken)); }
                  Ok(_) => assert!(!none) }
    }
    #[kani::proof]
    fn backtrack_err_resets_to_init_and_keeps_user_state() {        // C08
        let mut l = any_lexer();
        let us = l.user_state;
        let r = l.backtrack();
        kani::cover!(r.is_err());
        if r.is_err() { assert!(l.__state == 0); assert!(l.__initial_state == 0); assert!(l.last_match.is_none()); }
        assert!(l.user_state == us);
    }
    #[kani::proof]
    fn backtrack_ok_restores_saved_position_and_action() {         // C01
        let mut l = any_lexer();
        let saved = l.last_match.as_ref().map(|m| (m.0, rest(&m.1), m.2 as usize, m.3));
        let regs = (l.__state, l.__initial_state);
        let r = l.backtrack();
        kani::cover!(r.is_ok());
        if let Ok(f) = r {
            let s = saved.unwrap();
            assert!(f as usize == s.2);
            assert!(l.current_match_start == s.0 && l.current_match_end == s.3 && l.iter_loc == s.3);
            assert!(rest(&l.__iter) == s.1);
            assert!(l.last_match.is_none());
            assert!((l.__state, l.__initial_state) == regs);
        }
    }
    #[kani::proof]
    fn backtrack_done_flag_protocol() {                            // C05
        let mut l = any_lexer();
        let d = l.__done;
        let r = l.backtrack();
        kani::cover!(r.is_ok() && d);
        match r { Ok(_) => assert!(!l.__done), Err(_) => assert!(l.__done == d) }
    }
    #[kani::proof]
    fn no_panic_in_any_operation() {                               // C09: no panic / overflow / out-of-bounds in the run-time library
        let mut l = any_lexer();
        kani::assume(headroom(&l));
        let op: u8 = kani::any();
        match op {
            0 => { let _ = l.next(); }
            1 => { let _ = l.peek(); }
            2 => { let _ = l.backtrack(); }
            3 => { l.reset_accepting_state(); }
            4 => { l.set_accepting_state(act_a); }
            5 => { l.reset_match(); }
            6 => { let _ = l.match_loc(); }
            _ => { let _ = l.state(); }
        }
    }
    #[kani::proof]
    fn next_returns_characters_in_order_without_loss() {           // C05 C09: no character dropped, None only at the end
        let mut l = any_lexer();
        kani::assume(headroom(&l));
        let before = rest(&l.__iter);
        let r = l.next();
        assert!(r == before.0[0]);
        assert!(r.is_none() == before.0[0].is_none());
    }

    // ---- set / reset accepting state ---------------------------------------------------------------

    // ---- reset_match / match_loc / state -----------------------------------------------------------

    #[kani::proof]
    fn harness_state_frame() {
        // C10: only the user state is reachable through `state()`
        let mut l = any_lexer();
        let v: u32 = kani::any();
        let snap = (l.__state, l.__initial_state, l.__done, l.current_match_start, l.current_match_end, l.iter_loc, rest(&l.__iter),
                    l.last_match.as_ref().map(|m| (m.0, rest(&m.1), m.2 as usize, m.3)));
        *l.state() = v;
        assert!(l.user_state == v);
        assert!(snap == (l.__state, l.__initial_state, l.__done, l.current_match_start, l.current_match_end, l.iter_loc, rest(&l.__iter),
                         l.last_match.as_ref().map(|m| (m.0, rest(&m.1), m.2 as usize, m.3))));
    }

    // ---- representation invariant: locations are scan-consistent (C06, all histories) --------------
    // ghost: locs[k] = location of the k-th character boundary of the iterator's array, locs[0] symbolic
    fn ghost_locs(a: &[char; N], base: Loc) -> [Loc; N + 1] {
        let l1 = verif_spec::advance(base, a[0]); let l2 = verif_spec::advance(l1, a[1]); let l3 = verif_spec::advance(l2, a[2]);
        [base, l1, l2, l3]
    }
    fn pos(p: &Peekable<ArrIter>, n: usize) -> usize { let r = rest(p); n - (r.0.iter().filter(|x| x.is_some()).count()) }
    fn wf(l: &L, a: &[char; N], n: usize, locs: &[Loc; N + 1], j: usize) -> bool {
        let i = pos(&l.__iter, n);
        i <= n && j <= i && l.current_match_end == locs[i] && l.current_match_start == locs[j]
            && match &l.last_match { None => true, Some((ms, it, _, me)) => { let k = pos(it, n); j <= k && k <= i && *me == locs[k] && *ms == l.current_match_start } }
    }
    /// symbolic lexer satisfying wf over a symbolic array, base location with headroom
    fn any_wf_lexer() -> (L, [char; N], usize, [Loc; N + 1], usize) {
        let a: [char; N] = kani::any();
        let n: usize = kani::any(); kani::assume(n <= N);
        let base = any_loc();
        kani::assume(base.byte_idx <= usize::MAX - 64 && base.col <= u32::MAX - 64 && base.line <= u32::MAX - 64);
        let locs = ghost_locs(&a, base);
        let mut l = L::new_from_iter_with_state(ArrIter { a, n, i: 0 }, kani::any());
        l.__iter = any_iter(a, n);
        l.__state = kani::any(); l.__done = kani::any(); l.__initial_state = kani::any();
        let i = pos(&l.__iter, n);
        let j: usize = kani::any(); kani::assume(j <= i);
        l.current_match_end = locs[i]; l.current_match_start = locs[j]; l.iter_loc = any_loc();
        if kani::any() {
            let it = any_iter(a, n); let k = pos(&it, n); kani::assume(j <= k && k <= i);
            let f: Act = if kani::any() { act_a } else { act_b };
            l.last_match = Some((locs[j], it, f, locs[k]));
        }
        (l, a, n, locs, j)
    }
    #[kani::proof]
    #[kani::stub(unicode_width::UnicodeWidthChar::width, stub_width)]
    fn wf_preserved_by_next() {
        let (mut l, a, n, locs, j) = any_wf_lexer();
        kani::cover!(wf(&l, &a, n, &locs, j), "wf is satisfiable");
        assert!(wf(&l, &a, n, &locs, j));
        let _ = l.next();
        assert!(wf(&l, &a, n, &locs, j));
        assert!(l.current_match_start.byte_idx <= l.current_match_end.byte_idx);
    }
    #[kani::proof]
    #[kani::stub(unicode_width::UnicodeWidthChar::width, stub_width)]
    fn wf_preserved_by_backtrack() {
        let (mut l, a, n, locs, j) = any_wf_lexer();
        let r = l.backtrack();
        kani::cover!(r.is_ok());
        assert!(wf(&l, &a, n, &locs, j));      // after a rewind start/end are again scan-consistent (C06 "also after rewinding")
    }
    #[kani::proof]
    #[kani::stub(unicode_width::UnicodeWidthChar::width, stub_width)]
    fn wf_preserved_by_set_and_reset() {
        let (mut l, a, n, locs, j) = any_wf_lexer();
        if kani::any() { l.set_accepting_state(act_a); } else { l.reset_accepting_state(); }
        assert!(wf(&l, &a, n, &locs, j));
        let _ = l.peek(); let _ = l.match_loc(); let _ = l.state();
        assert!(wf(&l, &a, n, &locs, j));
        l.reset_match();
        let i = pos(&l.__iter, n);
        // reset_match moves the start to the end; a saved match (which records the old start) is dropped by the generated
        // code before reset_match is reachable, so wf is stated for the state without a saved match
        l.reset_accepting_state();
        assert!(wf(&l, &a, n, &locs, i));
    }

    // ---- constructors (C14) --------------------------------------------------------------------------
    #[kani::proof]
    fn constructors_initial_state() {
        let a: [char; N] = kani::any();
        let n: usize = kani::any(); kani::assume(n <= N);
        let st: u32 = kani::any();
        let it = ArrIter { a, n, i: 0 };
        let l = L::new_from_iter_with_state(it.clone(), st);
        assert!(l.__state == 0 && !l.__done && l.__initial_state == 0 && l.user_state == st);
        assert!(l.current_match_start == Loc::ZERO && l.current_match_end == Loc::ZERO && l.iter_loc == Loc::ZERO && l.last_match.is_none());
        assert!(rest(&l.__iter) == rest(&it.clone().peekable()));
        let d: Lexer<'static, ArrIter, u8, u32, u8, Wr> = Lexer::new_from_iter(it.clone());
        assert!(d.user_state == u32::default() && d.__state == 0 && !d.__done && d.__initial_state == 0 && d.last_match.is_none());
        assert!(d.current_match_start == Loc::ZERO && d.current_match_end == Loc::ZERO && rest(&d.__iter) == rest(&it.peekable()));
    }
    /// same characters through `new_with_state(&str)` and `new_from_iter_with_state(chars)`: identical observable behaviour of
    /// every operation (one symbolic character, any scalar value, followed by end of input)
    #[kani::proof]
    #[kani::unwind(6)]
    fn constructors_str_vs_iter() {
        let c: char = kani::any();
        let st: u32 = kani::any();
        let mut buf = [0u8; 4];
        let s: &str = c.encode_utf8(&mut buf);
        let mut x: Lexer<'_, std::str::Chars<'_>, u8, u32, u8, Wr> = Lexer::new_with_state(s, st);
        let mut y: Lexer<'static, ArrIter, u8, u32, u8, Wr> = Lexer::new_from_iter_with_state(ArrIter { a: [c, 'x', 'x'], n: 1, i: 0 }, st);
        assert!((x.__state, x.__done, x.__initial_state, x.user_state) == (y.__state, y.__done, y.__initial_state, y.user_state));
        assert!(x.match_loc() == y.match_loc() && x.last_match.is_none() && y.last_match.is_none());
        assert!(x.peek() == y.peek());
        let (rx, ry) = (x.next(), y.next());
        assert!(rx == ry && rx == Some(c));
        assert!(x.match_loc() == y.match_loc());
        assert!(x.next() == y.next());
        assert!(x.match_loc() == y.match_loc());
        assert!(x.iter_loc == y.iter_loc);
    }

    // ---- clone (C15) ---------------------------------------------------------------------------------
    fn snap(l: &L) -> (usize, bool, usize, u32, Loc, Loc, Loc, ([Option<char>; N], bool), Option<(Loc, ([Option<char>; N], bool), usize, Loc)>) {
        (l.__state, l.__done, l.__initial_state, l.user_state, l.iter_loc, l.current_match_start, l.current_match_end, rest(&l.__iter),
         l.last_match.as_ref().map(|m| (m.0, rest(&m.1), m.2 as usize, m.3)))
    }
    #[kani::proof]
    #[kani::stub(unicode_width::UnicodeWidthChar::width, stub_width)]
    fn clone_is_fieldwise_and_independent() {
        let mut l = any_lexer();
        kani::assume(headroom(&l));
        let mut c = l.clone();
        assert!(snap(&l) == snap(&c));
        kani::cover!(l.__done); kani::cover!(l.last_match.is_some());
        // one arbitrary operation on the original leaves the clone untouched, and vice versa gives the same result
        let before = snap(&c);
        let op: u8 = kani::any();
        match op {
            0 => { let a = l.next(); assert!(snap(&c) == before); let b = c.next(); assert!(a == b); }
            1 => { let a = l.backtrack().map(|f| f as usize).map_err(|e| e.location); assert!(snap(&c) == before);
                   let b = c.backtrack().map(|f| f as usize).map_err(|e| e.location); assert!(a == b); }
            2 => { l.reset_match(); assert!(snap(&c) == before); c.reset_match(); }
            3 => { l.set_accepting_state(act_b); assert!(snap(&c) == before); c.set_accepting_state(act_b); }
            4 => { *l.state() = 7; assert!(snap(&c) == before); *c.state() = 7; }
            _ => { let a = l.peek(); assert!(snap(&c) == before); assert!(a == c.peek()); }
        }
        assert!(snap(&l) == snap(&c));
    }
    //@@CONTRACT_HARNESSES@@
}
'''

# harness name -> (properties served, flags)
HARNESSES = {
    "contract_next": (["C06", "C09"], "contract"),
    "contract_peek": (["C10"], "contract"),
    "contract_backtrack": (["C01", "C05", "C06", "C07", "C08"], "contract"),
    "backtrack_err_is_invalid_token_at_lexeme_start": (["C07"], "harness"),
    "backtrack_err_resets_to_init_and_keeps_user_state": (["C08"], "harness"),
    "backtrack_ok_restores_saved_position_and_action": (["C01"], "harness"),
    "backtrack_done_flag_protocol": (["C05"], "harness"),
    "no_panic_in_any_operation": (["C09"], "harness"),
    "next_returns_characters_in_order_without_loss": (["C05", "C09"], "harness"),
    "contract_set_accepting_state": (["C01"], "contract"),
    "contract_reset_accepting_state": (["C01"], "contract"),
    "contract_reset_match": (["C10"], "contract"),
    "contract_match_loc": (["C06", "C10"], "contract"),
    "harness_state_frame": (["C10"], "harness"),
    "wf_preserved_by_next": (["C06", "C09"], "harness"),
    "wf_preserved_by_backtrack": (["C06"], "harness"),
    "wf_preserved_by_set_and_reset": (["C06", "C10"], "harness"),
    "constructors_initial_state": (["C14"], "harness"),
    "constructors_str_vs_iter": (["C14"], "harness"),
    "clone_is_fieldwise_and_independent": (["C15"], "harness"),
}
