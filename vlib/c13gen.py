"""generators for the C13 native crates (oracle list lives here, in /verif)"""
import os
import shutil

from . import common as C, rustscan as rs

ORACLE = [
    ("alphabetic", "c.is_alphabetic()"), ("alphanumeric", "c.is_alphanumeric()"), ("ascii", "c.is_ascii()"),
    ("ascii_alphabetic", "c.is_ascii_alphabetic()"), ("ascii_alphanumeric", "c.is_ascii_alphanumeric()"),
    ("ascii_control", "c.is_ascii_control()"), ("ascii_digit", "c.is_ascii_digit()"), ("ascii_graphic", "c.is_ascii_graphic()"),
    ("ascii_hexdigit", "c.is_ascii_hexdigit()"), ("ascii_lowercase", "c.is_ascii_lowercase()"),
    ("ascii_punctuation", "c.is_ascii_punctuation()"), ("ascii_uppercase", "c.is_ascii_uppercase()"),
    ("ascii_whitespace", "c.is_ascii_whitespace()"), ("control", "c.is_control()"), ("lowercase", "c.is_lowercase()"),
    ("numeric", "c.is_numeric()"), ("uppercase", "c.is_uppercase()"), ("whitespace", "c.is_whitespace()"),
    ("XID_Start", "unicode_xid::UnicodeXID::is_xid_start(c)"), ("XID_Continue", "unicode_xid::UnicodeXID::is_xid_continue(c)"),
]

# combined classes: (label, lexgen class expression, Rust predicate)
COMBINED = [
    ("alphabetic_or_digit", "$$alphabetic | ['0'-'9']", "c.is_alphabetic() || ('0'..='9').contains(&c)"),
    ("alphabetic_minus_lower_az", "$$alphabetic # ['a'-'z']", "c.is_alphabetic() && !('a'..='z').contains(&c)"),
    ("xid_continue_minus_start", "$$XID_Continue # $$XID_Start", "unicode_xid::UnicodeXID::is_xid_continue(c) && !unicode_xid::UnicodeXID::is_xid_start(c)"),
    ("any_minus_whitespace", "_ # $$whitespace", "!c.is_whitespace()"),
    ("upper_or_lower_minus_ascii", "($$uppercase | $$lowercase) # $$ascii", "(c.is_uppercase() || c.is_lowercase()) && !c.is_ascii()"),
]


def tables_substitutions():
    snap = C.snapshot()
    r2n = open(os.path.join(snap, "crates/lexgen/src/regex_to_nfa.rs")).read()
    gen = open(os.path.join(snap, "crates/char_range_gen/src/main.rs")).read()
    return {
        "CHAR_RANGES": os.path.join(snap, "crates/lexgen/src/char_ranges.rs"),
        "BUILTIN": os.path.join(snap, "crates/lexgen/src/builtin.rs"),
        "GET_BUILTIN_REGEX": rs.find_item(r2n, "fn", "get_builtin_regex").text,
        "GEN_FN": rs.find_item(gen, "fn", "generate_char_fn_ranges").text,
    }


def lexers_main(quick):
    """source of the enumeration harness: every class in three generated shapes, all scalar values"""
    mods, calls = [], []
    classes = [(n, "$$" + n, p) for (n, p) in ORACLE] + COMBINED
    for (label, expr, pred) in classes:
        m = "m_" + label.lower()
        mods.append("""mod %s {
    pub mod arms { lexgen::lexer! { pub L -> u8; %s = 1, } }      // one match arm per range (accepting transition)
    pub mod guard { lexgen::lexer! { pub L -> u8; (%s) '!' = 1, } } // one guard: chain of range tests (<= 9 ranges) or binary-search table
    pub mod looped { lexgen::lexer! { pub L -> u8; (%s)+ = 1, } }   // guard reused in a non-inlined looping state
    pub mod ctx { lexgen::lexer! { pub L -> u8; 'a' > (%s) = 1, 'a' = 2, } }          // the class decides a right context (accepting ranges of the context automaton)
    pub mod ctx2 { lexgen::lexer! { pub L -> u8; 'a' > ((%s) '!') = 1, 'a' = 2, } }   // the class leads to a non-accepting state of the context automaton
    pub fn pred(c: char) -> bool { %s }
}""" % (m, expr, expr, expr, expr, expr, pred))
        calls.append('    bad += check("%s", %s::pred, |s| one(%s::arms::L::new(s).next(), s), |s| one(%s::guard::L::new(s).next(), s), |s| one(%s::looped::L::new(s).next(), s), '
                     '|s| first_is_rule1(%s::ctx::L::new(s).next()), |s| first_is_rule1(%s::ctx2::L::new(s).next()));' % (label, m, m, m, m, m, m))
    return """// C13, obligation 4c: macro-expanded lexers (built by the REAL macro from the snapshot) run on every Unicode
// scalar value, in the three generated membership-test shapes, against the Rust predicate.  Exhaustive
// enumeration of a finite domain; reported separately from verifier obligations.
#![allow(dead_code, unused, non_snake_case, clippy::all)]
%s
type Item = Option<Result<(lexgen_util::Loc, u8, lexgen_util::Loc), lexgen_util::LexerError<std::convert::Infallible>>>;
fn one(it: Item, s: &str) -> bool { matches!(it, Some(Ok((st, 1, e))) if st.byte_idx == 0 && e.byte_idx == s.len()) }
fn first_is_rule1(it: Item) -> bool { matches!(it, Some(Ok((st, 1, e))) if st.byte_idx == 0 && e.byte_idx == 1) }
fn check(name: &str, pred: fn(char) -> bool, arms: impl Fn(&str) -> bool, guard: impl Fn(&str) -> bool, looped: impl Fn(&str) -> bool,
         ctx: impl Fn(&str) -> bool, ctx2: impl Fn(&str) -> bool) -> u32 {
    let mut buf = String::new();
    let mut nbad = 0u32; let mut n = 0u32;
    for i in 0..=0x10FFFFu32 {
        let Some(ch) = char::from_u32(i) else { continue };
        n += 1;
        let want = pred(ch);
        buf.clear(); buf.push(ch);
        let a = arms(&buf);
        let l = looped(&buf);
        buf.push('!');
        let g = guard(&buf);
        buf.clear(); buf.push('a'); buf.push(ch);
        let x = ctx(&buf);
        buf.push('!');
        let x2 = ctx2(&buf);
        if a != want || g != want || l != want || x != want || x2 != want {
            nbad += 1;
            if nbad <= 3 { println!("MISMATCH {} U+{:04X}: predicate {} arms-shape {} guard/table-shape {} looped-shape {} right-context-shape {} right-context-inner-shape {}", name, i, want, a, g, l, x, x2); }
        }
    }
    if nbad == 0 { println!("CLASS {} ok scalars={}", name, n); } else { println!("CLASSBAD {} differing={}", name, nbad); }
    (nbad > 0) as u32
}
fn main() {
    let mut bad = 0u32;
%s
    std::process::exit(if bad > 0 { 1 } else { 0 });
}
""" % ("\n".join(mods), "\n".join(calls))


def build_lexers_crate():
    src = os.path.join(C.VERIF, "replayers", "c13_lexers")
    dst = os.path.join(C.scratch(), "c13_lexers")
    if os.path.exists(dst):
        shutil.rmtree(dst)
    os.makedirs(os.path.join(dst, "src"))
    open(os.path.join(dst, "Cargo.toml"), "w").write(open(os.path.join(src, "Cargo.toml")).read().replace("@SNAP@", C.snapshot()))
    open(os.path.join(dst, "src", "main.rs"), "w").write(lexers_main(False))
    lock = os.path.join(C.snapshot(), "Cargo.lock")
    if os.path.exists(lock):
        shutil.copy(lock, os.path.join(dst, "Cargo.lock"))
    return dst
