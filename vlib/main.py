import importlib
import os
import sys


def main():
    args = sys.argv[1:]
    if not args:
        print("usage: ./check <ID> [--tier quick|thorough] [--replay FILE]")
        return 2
    prop = args[0].upper()
    if "--tier" in args:
        os.environ["VERIF_TIER"] = args[args.index("--tier") + 1]
    if "--replay" in args:
        path = args[args.index("--replay") + 1]
        print(open(path).read())
        return 0
    from . import common as C  # noqa: after env is set
    try:
        mod = importlib.import_module("checks." + prop.lower())
    except ModuleNotFoundError:
        print("no check for", prop)
        return 2
    try:
        return mod.main()
    except Exception as e:  # tool trouble is never a violation
        import traceback
        traceback.print_exc()
        print("UNDECIDED internal error: %s" % e)
        return C.EXIT_UNDECIDED


if __name__ == "__main__":
    sys.exit(main())
