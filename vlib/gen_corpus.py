"""Layer C generator: corpus definition (Python AST) ->
     * `lexer! { ... }` text (actions log into the user state),
     * a reference step function in Rust that shares no code with lexgen (straight-line dynamic programming over
       the regex ASTs on a window of N symbolic characters followed by end-of-input),
     * a Kani harness unrolling ONE real `next()` call from a symbolic call-start state.

Regex AST (tuples):
  ('chr', 'a') ('str', "ab") ('set', ['a', ('0','9'), ...]) ('any',) ('eof',) ('builtin', 'ascii_digit')
  ('star', r) ('plus', r) ('opt', r) ('cat', r1, r2, ...) ('or', r1, r2, ...) ('diff', r1, r2) ('var', 'name')

Rule: dict(re=..., ctx=None|regex, kind=..., to=None|'RuleSet')
  kinds: skip  tok  return  continue  reset_continue  switch  switch_return  ok  err

Definition: dict(name=..., lets=[(name, regex)], sets=[('Init', [rules...]), ('R1', [...])], flat=bool)
  flat=True prints the rules at top level without `rule Init { }` (single rule set only).

Input model of the reference: the window is a[0..n] (n <= N symbolic) followed by ONE end-of-input symbol at index n.
`$` is a symbol-like node matching exactly that symbol, so "a match ending in `$`" is simply a longer match.
"""

BUILTIN_PRED = {
    "ascii": "x.is_ascii()", "ascii_alphabetic": "x.is_ascii_alphabetic()", "ascii_alphanumeric": "x.is_ascii_alphanumeric()",
    "ascii_control": "x.is_ascii_control()", "ascii_digit": "x.is_ascii_digit()", "ascii_graphic": "x.is_ascii_graphic()",
    "ascii_hexdigit": "x.is_ascii_hexdigit()", "ascii_lowercase": "x.is_ascii_lowercase()",
    "ascii_punctuation": "x.is_ascii_punctuation()", "ascii_uppercase": "x.is_ascii_uppercase()",
    "ascii_whitespace": "x.is_ascii_whitespace()",
}


def rust_char(c):
    if c == "'":
        return "'\\''"
    if c == "\\":
        return "'\\\\'"
    if c == "\n":
        return "'\\n'"
    if c == "\t":
        return "'\\t'"
    if ord(c) < 0x20 or ord(c) > 0x7e:
        return "'\\u{%x}'" % ord(c)
    return "'%s'" % c


def rust_str(s):
    out = []
    for c in s:
        if c == '"':
            out.append('\\"')
        elif c == "\\":
            out.append("\\\\")
        elif c == "\n":
            out.append("\\n")
        elif c == "\t":
            out.append("\\t")
        elif ord(c) < 0x20 or ord(c) > 0x7e:
            out.append("\\u{%x}" % ord(c))
        else:
            out.append(c)
    return '"' + "".join(out) + '"'


# ---------------------------------------------------------------------------------------------------------
# printing to lexgen syntax (fully parenthesised, so the printed text does not depend on precedence rules)

def show(re, top=False):
    k = re[0]
    if k == "chr":
        return rust_char(re[1])
    if k == "str":
        return rust_str(re[1])
    if k == "set":
        parts = []
        for e in re[1]:
            parts.append(rust_char(e) if isinstance(e, str) else "%s-%s" % (rust_char(e[0]), rust_char(e[1])))
        return "[" + " ".join(parts) + "]"
    if k == "any":
        return "_"
    if k == "eof":
        return "$"
    if k == "builtin":
        return "$$" + re[1]
    if k == "var":
        return "$" + re[1]
    if k == "star":
        return "(%s)*" % show(re[1])
    if k == "plus":
        return "(%s)+" % show(re[1])
    if k == "opt":
        return "(%s)?" % show(re[1])
    if k == "cat":
        s = " ".join(show(x) for x in re[1:])
        return s if top else "(%s)" % s
    if k == "or":
        s = " | ".join(show(x) for x in re[1:])
        return s if top else "(%s)" % s
    if k == "diff":
        return "(%s # %s)" % (show(re[1]), show(re[2]))
    if k == "raw":  # verbatim lexgen syntax with an equivalent AST: ('raw', "text", ast)
        return re[1] if top else "(%s)" % re[1]
    raise ValueError(re)


# ---------------------------------------------------------------------------------------------------------

class Gen:
    """emits straight-line Rust computing match tables of regex nodes over the window"""

    def __init__(self, N, lets):
        self.N = N
        self.lets = dict(lets)
        self.lines = []
        self.cache = {}
        self.cnt = 0

    def norm(self, re):
        """desugar to: cls(pred) eof star cat2 or2 eps"""
        k = re[0]
        if k == "raw":
            return self.norm(re[2])
        if k == "var":
            return self.norm(self.lets[re[1]])
        if self.is_class(re):
            return ("cls", self.class_pred(re))
        if k == "eof":
            return ("eof",)
        if k == "str":
            s = re[1]
            if len(s) == 0:
                return ("eps",)
            node = ("cls", "x == %s" % rust_char(s[0]))
            for c in s[1:]:
                node = ("cat", node, ("cls", "x == %s" % rust_char(c)))
            return node
        if k == "star":
            return ("star", self.norm(re[1]))
        if k == "plus":
            x = self.norm(re[1])
            return ("cat", x, ("star", x))
        if k == "opt":
            return ("or", ("eps",), self.norm(re[1]))
        if k in ("cat", "or"):
            xs = [self.norm(x) for x in re[1:]]
            node = xs[0]
            for x in xs[1:]:
                node = (k, node, x)
            return node
        raise ValueError("not a regex / class misuse: %r" % (re,))

    def is_class(self, re):
        k = re[0]
        if k in ("chr", "set", "any", "builtin"):
            return True
        if k == "var":
            return self.is_class(self.lets[re[1]])
        if k == "raw":
            return self.is_class(re[2])
        if k == "or":
            return all(self.is_class(x) for x in re[1:])
        if k == "diff":
            return True
        return False

    def class_pred(self, re):
        k = re[0]
        if k == "chr":
            return "x == %s" % rust_char(re[1])
        if k == "set":
            ps = []
            for e in re[1]:
                ps.append("x == %s" % rust_char(e) if isinstance(e, str) else "(%s <= x && x <= %s)" % (rust_char(e[0]), rust_char(e[1])))
            return "(" + " || ".join(ps) + ")"
        if k == "any":
            return "true"
        if k == "builtin":
            return BUILTIN_PRED[re[1]]
        if k == "var":
            return self.class_pred(self.lets[re[1]])
        if k == "raw":
            return self.class_pred(re[2])
        if k == "or":
            return "(" + " || ".join(self.class_pred(x) for x in re[1:]) + ")"
        if k == "diff":
            return "((%s) && !(%s))" % (self.class_pred(re[1]), self.class_pred(re[2]))
        raise ValueError(re)

    def fresh(self):
        self.cnt += 1
        return self.cnt

    # tables: M (exact match of a[p..q] in the extended alphabet), PP (a[p..q] is a PROPER prefix of some word)
    def tables(self, node):
        """-> (M, PP) dicts (p,q)->rust bool expr name/literal; 0 <= p <= q <= N+1"""
        if node in self.cache:
            return self.cache[node]
        N = self.N
        R = range(N + 2)
        idn = self.fresh()
        M, PP = {}, {}

        def let(kind, p, q, expr):
            if expr in ("true", "false"):
                return expr
            nm = "%s%d_%d_%d" % (kind, idn, p, q)
            self.lines.append("let %s: bool = %s;" % (nm, expr))
            return nm

        def OR(xs):
            xs = [x for x in xs if x != "false"]
            if any(x == "true" for x in xs):
                return "true"
            return " || ".join("(%s)" % x if " " in x else x for x in xs) if xs else "false"

        def AND(x, y):
            if x == "false" or y == "false":
                return "false"
            if x == "true":
                return y
            if y == "true":
                return x
            return "%s && %s" % (x if " || " not in x else "(%s)" % x, y if " || " not in y else "(%s)" % y)

        k = node[0]
        if k == "eps":
            for p in R:
                for q in range(p, N + 2):
                    M[p, q] = "true" if p == q else "false"
                    PP[p, q] = "false"
        elif k == "cls":
            for p in R:
                for q in range(p, N + 2):
                    if q == p + 1 and p < N:
                        M[p, q] = let("m", p, q, "%d < n && { let x = a[%d]; %s }" % (p, p, node[1]))
                    else:
                        M[p, q] = "false"
                    PP[p, q] = "true" if p == q else "false"
        elif k == "eof":
            for p in R:
                for q in range(p, N + 2):
                    M[p, q] = let("m", p, q, "n == %d" % p) if (q == p + 1 and p <= N) else "false"
                    PP[p, q] = "true" if p == q else "false"
        elif k == "or":
            Mx, Px = self.tables(node[1])
            My, Py = self.tables(node[2])
            for p in R:
                for q in range(p, N + 2):
                    M[p, q] = let("m", p, q, OR([Mx[p, q], My[p, q]]))
                    PP[p, q] = let("pp", p, q, OR([Px[p, q], Py[p, q]]))
        elif k == "cat":
            Mx, Px = self.tables(node[1])
            My, Py = self.tables(node[2])
            for p in R:
                for q in range(p, N + 2):
                    M[p, q] = let("m", p, q, OR([AND(Mx[p, kk], My[kk, q]) for kk in range(p, q + 1)]))
                    PP[p, q] = let("pp", p, q, OR([Px[p, q]] + [AND(Mx[p, kk], Py[kk, q]) for kk in range(p, q + 1)]))
        elif k == "star":
            Mx, Px = self.tables(node[1])
            for p in reversed(R):
                for q in range(p, N + 2):
                    if p == q:
                        M[p, q] = "true"
                    else:
                        M[p, q] = let("m", p, q, OR([AND(Mx[p, kk], M[kk, q]) for kk in range(p + 1, q + 1)]))
            for p in R:
                for q in range(p, N + 2):
                    PP[p, q] = let("pp", p, q, OR([AND(M[p, kk], Px[kk, q]) for kk in range(p, q + 1)]))
        else:
            raise ValueError(node)
        self.cache[node] = (M, PP)
        return M, PP


# ---------------------------------------------------------------------------------------------------------

KINDS = ("skip", "tok", "return", "continue", "reset_continue", "reset_return", "switch", "switch_return", "ok", "err")


def lexer_text(d, lname="L"):
    """the lexer! invocation of a definition"""
    has_fallible = any(r["kind"] in ("ok", "err") for (_, rules) in d["sets"] for r in rules) or d.get("form") in ("clone_pair", "ctor_pair")
    out = ["lexgen::lexer! {"] + (["    " + d["attrs"]] if d.get("attrs") else []) + ["    pub(crate) %s(Log) -> u8;" % lname]
    if has_fallible:
        out.append("    type Error = u8;")
    for (nm, re) in d.get("lets", []):
        out.append("    let %s = %s;" % (nm, show(re, top=True)))
    rid = 0
    for (sname, rules) in d["sets"]:
        ind = "    "
        if not d.get("flat"):
            out.append("    rule %s {" % sname)
            ind = "        "
        for (lnm, lre) in d.get("set_lets", {}).get(sname, []):
            out.append("%slet %s = %s;" % (ind, lnm, show(lre, top=True)))
        for r in rules:
            rid += 1
            lhs = show(r["re"], top=True)
            if r.get("ctx") is not None:
                lhs += " > " + show(r["ctx"])
            k = r["kind"]
            log = "let (s, e) = lexer.match_loc(); let pk = lexer.peek(); lexer.state().log(%d, s, e, pk);" % rid
            if k == "skip":
                out.append("%s%s," % (ind, lhs))
            elif k == "tok":
                out.append("%s%s = %d," % (ind, lhs, rid))
            elif k == "return":
                out.append("%s%s => |lexer| { %s lexer.return_(%d) }," % (ind, lhs, log, rid))
            elif k == "continue":
                out.append("%s%s => |lexer| { %s lexer.continue_() }," % (ind, lhs, log))
            elif k == "reset_continue":
                out.append("%s%s => |lexer| { %s lexer.reset_match(); lexer.continue_() }," % (ind, lhs, log))
            elif k == "reset_return":
                out.append("%s%s => |lexer| { %s lexer.reset_match(); lexer.return_(%d) }," % (ind, lhs, log, rid))
            elif k == "switch":
                out.append("%s%s => |lexer| { %s lexer.switch(%sRule::%s) }," % (ind, lhs, log, lname, r["to"]))
            elif k == "switch_return":
                out.append("%s%s => |lexer| { %s lexer.switch_and_return(%sRule::%s, %d) }," % (ind, lhs, log, lname, r["to"], rid))
            elif k == "ok":
                out.append("%s%s =? |lexer| { %s lexer.return_(Ok(%d)) }," % (ind, lhs, log, rid))
            elif k == "err":
                out.append("%s%s =? |lexer| { %s lexer.return_(Err(%d)) }," % (ind, lhs, log, rid))
            else:
                raise ValueError(k)
        if not d.get("flat"):
            out.append("    }")
    out.append("}")
    return "\n".join(out)


def reference_fn(d, N, m):
    """Rust source of `fn reference(a, n, rs0, done0, locs) -> RefOut` for definition d (window N, at most m actions per call)"""
    g = Gen(N, d.get("lets", []))
    set_names = [s for (s, _) in d["sets"]]
    # per rule tables
    rid = 0
    rules = []  # (rid, set index, rule, M, PP, ctxM)
    for si, (sname, rs) in enumerate(d["sets"]):
        gg_lets = dict(d.get("lets", []))
        gg_lets.update(dict(d.get("set_lets", {}).get(sname, [])))
        g.lets = gg_lets
        for r in rs:
            rid += 1
            node = g.norm(r["re"])
            M, PP = g.tables(node)
            CM = None
            if r.get("ctx") is not None:
                CM, _ = g.tables(g.norm(r["ctx"]))
            rules.append((rid, si, r, M, PP, CM))
    L = g.lines
    R = range(N + 2)
    out = []
    out.append("#[allow(unused_variables, unused_parens, unused_assignments, unused_mut, non_snake_case, clippy::all)]")
    out.append("pub fn reference(a: &[char; N], n: usize, rs0: u8, done0: bool, locs: &[Loc; N + 1]) -> RefOut {")
    out.extend("    " + ln for ln in L)
    # valid candidates, best per (set, p)
    for si in range(len(set_names)):
        srules = [x for x in rules if x[1] == si]
        for p in range(N + 1):
            # best: largest q, then rule order
            expr = "(false, 0usize, 0u8)"
            chain = []
            for q in range(N + 1, p, -1):
                for (rid, _, r, M, PP, CM) in srules:
                    cond = M[p, q]
                    if cond == "false":
                        continue
                    if CM is not None:
                        if q > N:
                            continue
                        ctx = [CM[q, kk] for kk in range(q, N + 2)]
                        if any(c == "true" for c in ctx):
                            c = "true"
                        else:
                            c = " || ".join(c for c in ctx if c != "false") or "false"
                        if c == "false":
                            continue
                        if c != "true":
                            cond = "%s && (%s)" % (cond, c) if cond != "true" else "(%s)" % c
                    chain.append((cond, q, rid))
            txt = ""
            for (cond, q, rid) in chain:
                txt += "if %s { (true, %dusize, %du8) } else " % (cond, q, rid)
            txt += "{ (false, 0usize, 0u8) }"
            out.append("    let best_%d_%d: (bool, usize, u8) = %s;" % (si, p, txt))
            # failure scan from p: viability / terminality of a[p..t]
            via = {}
            term = {}
            for t in range(p, N + 2):
                vs = []
                ps = []
                for (rid, _, r, M, PP, CM) in srules:
                    vs.append(M[p, t]); vs.append(PP[p, t]); ps.append(PP[p, t])
                via[t] = "true" if any(v == "true" for v in vs) else (" || ".join(v for v in vs if v != "false") or "false")
                term[t] = "false" if any(v == "true" for v in ps) else ("!(" + (" || ".join(v for v in ps if v != "false") or "false") + ")")
            # scan: returns (consumed chars, reached end of input)
            scan = []
            scan.append("    let fail_%d_%d: (usize, bool) = {" % (si, p))
            scan.append("        let mut res: (usize, bool) = (0, false); let mut stop = false;")
            for t in range(p, N + 1):
                scan.append("        if !stop { if n == %d { res = (%d, true); stop = true; } else if !(%s) { res = (%d, false); stop = true; } else if %s { res = (%d, false); stop = true; } }"
                            % (t, t - p, via[t + 1], t + 1 - p, term[t + 1], t + 1 - p))
            scan.append("        res };")
            out.extend(scan)
    # rule kinds table
    kinds = {rid: (r["kind"], set_names.index(r["to"]) if r.get("to") else 0) for (rid, _, r, _, _, _) in rules}
    out.append("    let mut rs: u8 = rs0; let mut pos: usize = 0; let mut ms: usize = 0; let mut done: bool = done0;")
    out.append("    let mut log = Log::default(); let mut item = RefItem::Pending; let mut within = true; let mut rounds: usize = 0;")
    for rnd in range(m):
        out.append("    // ---- round %d" % rnd)
        out.append("    if matches!(item, RefItem::Pending) {")
        out.append("        if done { item = RefItem::None; } else { rounds += 1;")
        sel_b = " ".join("(%d, %d) => best_%d_%d," % (si, p, si, p) for si in range(len(set_names)) for p in range(N + 1))
        sel_f = " ".join("(%d, %d) => fail_%d_%d," % (si, p, si, p) for si in range(len(set_names)) for p in range(N + 1))
        out.append("            let b: (bool, usize, u8) = match (rs, pos) { %s _ => (false, 0, 0) };" % sel_b)
        out.append("            let f: (usize, bool) = match (rs, pos) { %s _ => (0, true) };" % sel_f)
        out.append("            if !b.0 {")
        out.append("                if pos == n && rs == 0 { done = true; item = RefItem::None; }")
        out.append("                else { item = RefItem::Invalid(locs[ms]); rs = 0; pos += f.0; ms = pos; if f.1 { done = true; } }")
        out.append("            } else {")
        out.append("                let q = b.1; let newpos = if q > n { n } else { q }; if q > n { done = true; }")
        out.append("                pos = newpos; let rid = b.2;")
        out.append("                let pk = if pos < n { Some(a[pos]) } else { None };")
        out.append("                match rid {")
        for rid, (k, to) in kinds.items():
            lg = "log.log(%d, locs[ms], locs[pos], pk);" % rid
            if k == "skip":
                body = "ms = pos;"
            elif k == "tok":
                body = "item = RefItem::Tok(locs[ms], %d, locs[pos]); ms = pos;" % rid
            elif k == "return":
                body = lg + " item = RefItem::Tok(locs[ms], %d, locs[pos]); ms = pos;" % rid
            elif k == "continue":
                body = lg
            elif k == "reset_continue":
                body = lg + " ms = pos;"
            elif k == "reset_return":
                body = lg + " ms = pos; item = RefItem::Tok(locs[ms], %d, locs[pos]);" % rid
            elif k == "switch":
                body = lg + " rs = %d;" % to
            elif k == "switch_return":
                body = lg + " rs = %d; item = RefItem::Tok(locs[ms], %d, locs[pos]); ms = pos;" % (to, rid)
            elif k == "ok":
                body = lg + " item = RefItem::Tok(locs[ms], %d, locs[pos]); ms = pos;" % rid
            elif k == "err":
                body = lg + " item = RefItem::Custom(locs[ms], %d); ms = pos;" % rid
            out.append("                    %d => { %s }" % (rid, body))
        out.append("                    _ => {}")
        out.append("                }")
        out.append("            }")
        out.append("        }")
        out.append("    }")
    out.append("    if matches!(item, RefItem::Pending) { if done { item = RefItem::None; } else { within = false; } }")
    out.append("    RefOut { item, rs, pos, ms, done, log, within, rounds }")
    out.append("}")
    return "\n".join(out)


PRELUDE = r'''
#[allow(unused_imports)]
use lexgen_util::{Loc, LexerError, LexerErrorKind};
use super::{ArrIter, N, Log, RefItem, RefOut, ghost_locs, rest_eq, consumed};
#[cfg(kani)]
use super::any_base;
'''

COMMON = r'''
#![allow(dead_code, unused_imports, unused_variables, unused_mut, non_snake_case, clippy::all)]
use lexgen_util::Loc;
pub const N: usize = @N@;
pub const LOGM: usize = @LOGM@;

#[derive(Clone)]
pub struct ArrIter { pub a: [char; N], pub n: usize, pub i: usize }
impl Iterator for ArrIter {
    type Item = char;
    fn next(&mut self) -> Option<char> { if self.i < self.n { let c = self.a[self.i]; self.i += 1; Some(c) } else { None } }
    fn size_hint(&self) -> (usize, Option<usize>) { let r = if self.i <= self.n { self.n - self.i } else { 0 }; (r, Some(r)) }
}
/// number of characters the lexer has consumed: every clone of the iterator walks the same array, so the position determines
/// the remaining input (Peekable::size_hint counts a buffered character as not yet consumed)
pub fn consumed(it: &std::iter::Peekable<ArrIter>, n: usize) -> usize { let r = it.size_hint().0; if r <= n { n - r } else { 0 } }

/// user state: a write-only log of action invocations (rule id, match_loc(), peek())
#[derive(Clone, Copy, PartialEq, Eq, Debug)]
pub struct Log { pub n: usize, pub rule: [u8; LOGM], pub s: [Loc; LOGM], pub e: [Loc; LOGM], pub pk: [Option<char>; LOGM] }
impl Default for Log {
    fn default() -> Self { let z = Loc { line: 0, col: 0, byte_idx: 0 }; Log { n: 0, rule: [0; LOGM], s: [z; LOGM], e: [z; LOGM], pk: [None; LOGM] } }
}
impl Log {
    pub fn log(&mut self, rule: u8, s: Loc, e: Loc, pk: Option<char>) {
        if self.n < LOGM { self.rule[self.n] = rule; self.s[self.n] = s; self.e[self.n] = e; self.pk[self.n] = pk; }
        self.n += 1;
    }
}

#[derive(Clone, Copy, PartialEq, Eq, Debug)]
pub enum RefItem { Pending, None, Tok(Loc, u8, Loc), Invalid(Loc), Custom(Loc, u8) }
pub struct RefOut { pub item: RefItem, pub rs: u8, pub pos: usize, pub ms: usize, pub done: bool, pub log: Log, pub within: bool, pub rounds: usize }

/// cheap pure stand-in for the display width (harnesses that do not check columns are parametric in it)
pub fn stub_width(c: char) -> Option<usize> { let k = (c as u32) & 3; if k == 3 { None } else { Some(k as usize) } }

/// the README location rule (independent restatement; uses the same width function as the library)
pub fn advance(loc: Loc, c: char) -> Loc {
    let mut l = loc;
    l.byte_idx += c.len_utf8();
    if c == '\n' { l.line += 1; l.col = 0; }
    else if c == '\t' { l.col += 4; }
    else { l.col += unicode_width::UnicodeWidthChar::width(c).unwrap_or(1) as u32; }
    l
}
pub fn ghost_locs(a: &[char; N], base: Loc) -> [Loc; N + 1] {
    let mut locs = [base; N + 1];
    let mut k = 0;
    while k < N { locs[k + 1] = advance(locs[k], a[k]); k += 1; }
    locs
}
#[cfg(kani)]
pub fn any_base() -> Loc {
    let b = Loc { line: kani::any(), col: kani::any(), byte_idx: kani::any() };
    kani::assume(b.byte_idx <= usize::MAX - 64 && b.col <= u32::MAX - 64 && b.line <= u32::MAX - 64);
    b
}
/// remaining characters of the lexer's iterator (observed on a clone) equal a[pos..n]
pub fn rest_eq(it: &std::iter::Peekable<ArrIter>, a: &[char; N], n: usize, pos: usize) -> bool {
    let mut q = it.clone();
    let mut k = pos;
    let mut ok = true;
    let mut j = 0;
    while j <= N {
        let c = q.next();
        if k < n { if c != Some(a[k]) { ok = false; } k += 1; } else { if c.is_some() { ok = false; } }
        j += 1;
    }
    ok
}
'''


def harness_mod(d, N, m, unwind, stub_width=True, tags=None):
    """module text for one definition: lexer + reference + harness"""
    name = d["name"]
    set_names = [s for (s, _) in d["sets"]]
    multi = not d.get("flat")
    enter = []
    if multi:
        for i, s in enumerate(set_names):
            enter.append("%d => { let _ = lx.switch::<()>(LRule::%s); }" % (i, s))
        enter_code = "match rs0 { %s _ => {} }" % " ".join(enter)
        entry_fn = "fn entry(rs: u8) -> usize { let mut t = L::new_from_iter_with_state(ArrIter { a: ['x'; N], n: 0, i: 0 }, Log::default()); match rs { %s _ => {} } t.0.__state }" % \
            " ".join("%d => { let _ = t.switch::<()>(LRule::%s); }" % (i, s) for i, s in enumerate(set_names))
    else:
        enter_code = ""
        entry_fn = "fn entry(_rs: u8) -> usize { 0 }"
    stub = "#[kani::stub(unicode_width::UnicodeWidthChar::width, crate::stub_width)]\n    " if stub_width else ""
    T = dict(tags or {})
    via = d.get("via")
    if via in ("clone", "clone2", "str", "new", "new_from_iter"):
        # every assertion of these variants formalises C15 / C14 (the same step contract, for a cloned / string-built lexer)
        only = "C15" if via in ("clone", "clone2") else "C14"
        for k in ("tok", "span", "errkind", "errloc", "custom", "customloc", "none", "extra", "okerr", "errok", "rs", "pos", "match", "done", "lm", "logn", "log"):
            T[k] = only
    pos_check = 'assert!(consumed(&lx.0.__iter, n) == r.pos, "[%s] input position after the call differs from the reference");' % T.get("pos", "C01 C02 C04 C05 C08 C11")
    post = ""
    symbolic_state = "let base = any_base();\n        let rs0: u8 = kani::any(); kani::assume((rs0 as usize) < %d);\n        let done0: bool = kani::any();" % len(set_names)
    base_construct = "let mut lx = L::new_from_iter_with_state(ArrIter { a, n, i: 0 }, Log::default());\n        lx.0.__verif_set_locs(base);\n        %s\n        lx.0.__done = done0;" % enter_code
    if via in ("clone", "clone2"):
        # C15: the lexer under test is a CLONE taken at the call boundary; the original must stay untouched by the clone's call
        construct = base_construct.replace("let mut lx =", "let mut orig =").replace("lx.0.", "orig.0.").replace("lx.switch", "orig.switch") + \
            "\n        let mut lx = orig.clone();\n        let orig_view = (orig.0.__state, orig.0.__initial_state, orig.0.__done, orig.0.match_loc(), orig.0.__iter.size_hint().0, orig.0.__verif_user_state().n);"
        post = 'assert!(orig_view == (orig.0.__state, orig.0.__initial_state, orig.0.__done, orig.0.match_loc(), orig.0.__iter.size_hint().0, orig.0.__verif_user_state().n) && orig.0.__verif_last_match_is_none(), "[C15] a call on the clone changed the original");'
        if via == "clone2":
            # the original now takes the same step: it must yield the same item (no state shared outside the two structs)
            post += """
        let item2 = orig.next();
        let same = match (&item, &item2) {
            (None, None) => true,
            (Some(Ok(x)), Some(Ok(y))) => x.0 == y.0 && x.1 == y.1 && x.2 == y.2,
            (Some(Err(e1)), Some(Err(e2))) => e1.location == e2.location && matches!(e1.kind, LexerErrorKind::InvalidToken) == matches!(e2.kind, LexerErrorKind::InvalidToken),
            _ => false,
        };
        assert!(same, "[C15] the original yields a different item than its clone did from the same state");
        assert!((orig.0.__state, orig.0.__done, orig.0.match_loc(), orig.0.__iter.size_hint().0) == (lx.0.__state, lx.0.__done, lx.0.match_loc(), lx.0.__iter.size_hint().0), "[C15] original and clone end in different states after the same call");"""
    elif via == "new_from_iter":
        # C14: the Default-state iterator constructor (fresh lexer: Init, not done, location zero)
        construct = "let mut lx = L::new_from_iter(ArrIter { a, n, i: 0 });"
        symbolic_state = "let base = Loc { line: 0, col: 0, byte_idx: 0 }; let rs0: u8 = 0; let done0 = false;"
    elif via in ("str", "new"):
        # C14: the lexer is built from a &str holding the same characters (fresh lexer: Init, not done, location zero)
        construct = ("let mut s_bytes = [0u8; 4 * N + 4]; let mut s_len = 0usize;\n"
                     "        { let mut k = 0; while k < N { if k < n { let l = a[k].encode_utf8(&mut s_bytes[s_len..s_len + 4]).len(); s_len += l; } k += 1; } }\n"
                     "        // the buffer holds exactly the UTF-8 encodings written by char::encode_utf8 (no validation loop needed)\n"
                     "        let s_str: &str = unsafe { std::str::from_utf8_unchecked(&s_bytes[..s_len]) };\n"
                     "        let mut lx = %s;" % ("L::new(s_str)" if via == "new" else "L::new_with_state(s_str, Log::default())"))
        pos_check = ""
        symbolic_state = "let base = Loc { line: 0, col: 0, byte_idx: 0 }; let rs0: u8 = 0; let done0 = false;"
    else:
        construct = base_construct
    has_fallible = any(r["kind"] in ("ok", "err") for (_, rules) in d["sets"] for r in rules)
    custom_check = "matches!(er.kind, LexerErrorKind::Custom(x) if x == c)" if has_fallible else "false"

    def tag(k, default):
        return T.get(k, default)

    return """
pub mod %(name)s {
    %(prelude)s
    %(lexer)s

    %(reference)s

    %(entry_fn)s

    /// one real `next()` call from the call-start state (rule set rs0, base location, done flag, remaining input a[0..n])
    /// compared with the reference step.  Used symbolically by the Kani harness and concretely by the native replayer.
    pub fn check(a: [char; N], n: usize, base: Loc, rs0: u8, done0: bool, verbose: bool) {
        let locs = ghost_locs(&a, base);
        let r = reference(&a, n, rs0, done0, &locs);
        #[cfg(kani)]
        kani::assume(r.within);                       // at most %(m)d lexemes handled in this call (bound m)
        %(construct)s
        let item = lx.next();
        #[cfg(not(kani))]
        if verbose {
            println!("input window      : {:?} (n = {}), rule set index {}, done flag {}, base {:?}", &a[..n], n, rs0, done0, base);
            println!("real lexer item   : {:?}", item);
            println!("reference item    : {:?}   (after: rule set {}, position {}, match start {}, done {}, {} action(s) logged)", r.item, r.rs, r.pos, r.ms, r.done, r.log.n);
            let logged = lx.0.state().n;
            println!("real lexer after  : __state {} __initial_state {} (entry of reference rule set: {}), match_loc {:?}, done {}, saved match cleared {}, actions logged {}",
                     lx.0.__state, lx.0.__initial_state, entry(r.rs), lx.0.match_loc(), lx.0.__done, lx.0.__verif_last_match_is_none(), logged);
            if !r.within { println!("NOTE: this input needs more than %(m)d lexemes in one call; it is outside the bound of the harness"); return; }
        }
        #[cfg(not(kani))]
        if !r.within { return; }                       // native sweep: inputs outside the bound m are skipped (counted by the caller as evaluated-and-skipped)
        // ---- vacuity guards
        #[cfg(kani)]
        {
            kani::cover!(matches!(r.item, RefItem::Tok(..)), "cover: a token is produced");
            kani::cover!(matches!(r.item, RefItem::Invalid(..)), "cover: InvalidToken is produced");
            kani::cover!(matches!(r.item, RefItem::None), "cover: stream end is produced");
            kani::cover!(r.rounds >= 2, "cover: two lexemes handled in one call");
        }
        // ---- the item
        match (&item, r.item) {
            (None, RefItem::None) => {}
            (Some(Ok((s, t, e))), RefItem::Tok(rs_, rt, re_)) => {
                assert!(*t == rt, "[%(t_tok)s] token / selected rule differs from the reference (longest match, rule priority)");
                assert!(*s == rs_ && *e == re_, "[%(t_span)s] token span differs from the reference");
            }
            (Some(Err(er)), RefItem::Invalid(l)) => {
                assert!(matches!(er.kind, LexerErrorKind::InvalidToken), "[%(t_errkind)s] error kind differs from the reference");
                assert!(er.location == l, "[%(t_errloc)s] InvalidToken location is not the start of the lexeme");
            }
            (Some(Err(er)), RefItem::Custom(l, c)) => {
                assert!(%(custom_check)s, "[%(t_custom)s] custom error payload differs");
                assert!(er.location == l, "[%(t_customloc)s] custom error location is not the start of the lexeme");
            }
            (None, _) => { assert!(false, "[%(t_none)s] stream ended although the reference yields an item"); }
            (Some(Ok(_)), RefItem::None) => { assert!(false, "[%(t_extra)s] token produced although the reference ends the stream"); }
            (Some(Err(_)), RefItem::None) => { assert!(false, "[%(t_extra)s] error produced although the reference ends the stream"); }
            (Some(Ok(_)), _) => { assert!(false, "[%(t_okerr)s] token produced where the reference reports an error"); }
            (Some(Err(_)), _) => { assert!(false, "[%(t_errok)s] error produced where the reference yields a token"); }
        }
        // ---- the state between two calls
        assert!(lx.0.__state == entry(r.rs) && lx.0.__initial_state == entry(r.rs), "[%(t_rs)s] active rule set after the call differs from the reference");
        %(pos_check)s
        assert!(lx.0.match_loc() == (locs[r.ms], locs[r.pos]), "[%(t_match)s] current match after the call differs from the reference");
        assert!(lx.0.__done == r.done, "[%(t_done)s] end-of-input flag differs from the reference");
        assert!(lx.0.__verif_last_match_is_none(), "[%(t_lm)s] a saved accepting position survives the call");
        // ---- the actions that ran
        let lg = *lx.0.state();
        assert!(lg.n == r.log.n, "[%(t_logn)s] number of action invocations differs from the reference");
        assert!(lg == r.log, "[%(t_log)s] action log (rule, match_loc, peek) differs from the reference");
        %(post)s
    }

    #[cfg(kani)]
    #[kani::proof]
    #[kani::unwind(%(unwind)d)]
    %(stub)spub fn step() {
        let a: [char; N] = kani::any();
        let n: usize = kani::any(); kani::assume(n <= N);
        %(symbolic_state)s
        check(a, n, base, rs0, done0, false);
    }
}
""" % dict(name=name, prelude=PRELUDE, lexer=lexer_text(d), reference=reference_fn(d, N, m), entry_fn=entry_fn, unwind=unwind, stub=stub,
           nsets=len(set_names), m=m, enter=enter_code, custom_check=custom_check, construct=construct, pos_check=pos_check, post=post,
           symbolic_state=symbolic_state,
           t_tok=tag("tok", "C01 C02 C03 C04 C11"), t_span=tag("span", "C01 C02 C04 C06 C10 C11"), t_errkind=tag("errkind", "C07"),
           t_errloc=tag("errloc", "C07 C06"), t_custom=tag("custom", "C07 C10"), t_customloc=tag("customloc", "C07 C06"),
           t_none=tag("none", "C05 C01 C02"), t_extra=tag("extra", "C05"),
           t_okerr=tag("okerr", "C07 C01 C02 C04 C11"), t_errok=tag("errok", "C07 C01 C02 C04 C11"), t_rs=tag("rs", "C03 C08"),
           t_pos=tag("pos", "C01 C02 C04 C05 C08 C11"), t_match=tag("match", "C06 C08 C10"), t_done=tag("done", "C05"),
           t_lm=tag("lm", "C01 C03 C07 C09 C10"), t_logn=tag("logn", "C10 C01"), t_log=tag("log", "C10 C06 C01"))


PROJ = """
    /// items compared through a projection (Kani 0.68 cannot compile the derived PartialEq of LexerErrorKind for every error type)
    fn proj(i: &Option<Result<(Loc, u8, Loc), LexerError<u8>>>) -> (u8, Loc, u8, Loc) {
        let z = Loc { line: 0, col: 0, byte_idx: 0 };
        match i {
            None => (0, z, 0, z),
            Some(Ok((s, t, e))) => (1, *s, *t, *e),
            Some(Err(er)) => match er.kind { LexerErrorKind::InvalidToken => (2, er.location, 0, z), LexerErrorKind::Custom(c) => (3, er.location, c, z) },
        }
    }
"""


def _enter_code(d):
    set_names = [s for (s, _) in d["sets"]]
    if d.get("flat"):
        return "", len(set_names)
    arms = " ".join("%d => { let _ = lx.switch::<()>(LRule::%s); }" % (i, s) for i, s in enumerate(set_names))
    return "match rs0 { %s _ => {} }" % arms, len(set_names)


def termination_mod(d, N, unwind):
    """C09: no reference; one call from any call-start state returns within the unwinding bound and makes progress"""
    enter, nsets = _enter_code(d)
    return """
pub mod %(name)s {
    %(prelude)s
    %(lexer)s

    pub fn check(a: [char; N], n: usize, base: Loc, rs0: u8, done0: bool, verbose: bool) {
        let mut lx = L::new_from_iter_with_state(ArrIter { a, n, i: 0 }, Log::default());
        lx.0.__verif_set_locs(base);
        %(enter)s
        lx.0.__done = done0;
        let item = lx.next();      // must return: unwinding assertions are on
        #[cfg(not(kani))]
        if verbose { println!("input {:?} (n={}), rule set {}, done {} -> returned; done flag now {}", &a[..n], n, rs0, done0, lx.0.__done); }
        let consumed = consumed(&lx.0.__iter, n);
        if item.is_some() {
            assert!(consumed >= 1 || (lx.0.__done && !done0), "[C09] an item was produced without consuming a character or the end-of-input event");
        }
        if done0 { assert!(item.is_none(), "[C09 C05] an item after the end-of-input event was handled"); }
        let lg = *lx.0.state();
        assert!(lg.n <= n + 1, "[C09] more actions ran than characters plus one");
    }

    #[cfg(kani)]
    #[kani::proof]
    #[kani::unwind(%(unwind)d)]
    #[kani::stub(unicode_width::UnicodeWidthChar::width, crate::stub_width)]
    pub fn step() {
        let a: [char; N] = kani::any();
        let n: usize = kani::any(); kani::assume(n <= N);
        let base = any_base();
        let rs0: u8 = kani::any(); kani::assume((rs0 as usize) < %(nsets)d);
        let done0: bool = kani::any();
        check(a, n, base, rs0, done0, false);
    }
}
""" % dict(name=d["name"], prelude=PRELUDE.replace("RefItem, RefOut, ghost_locs, rest_eq, ", ""), lexer=lexer_text(d), enter=enter, nsets=nsets, unwind=unwind)


def clone_mod(d, N, unwind):
    """C15: clone at any call boundary; both continue identically and independently (one call each, symbolic call-start state)"""
    enter, nsets = _enter_code(d)
    return """
pub mod %(name)s {
    %(prelude)s
    %(lexer)s
%(proj)s
    /// observable equality of two lexers: registers, current match, done flag, saved match, remaining input, user state
    fn same(x: &L<'static, ArrIter>, y: &L<'static, ArrIter>) -> bool {
        x.0.__iter.size_hint().0 == y.0.__iter.size_hint().0 && x.0.__state == y.0.__state && x.0.__initial_state == y.0.__initial_state && x.0.__done == y.0.__done && x.0.match_loc() == y.0.match_loc()
           && x.0.__verif_last_match_is_none() == y.0.__verif_last_match_is_none() && x.0.__verif_user_state() == y.0.__verif_user_state()
    }
    pub fn check(a: [char; N], n: usize, base: Loc, rs0: u8, done0: bool, verbose: bool) {
        let mut lx = L::new_from_iter_with_state(ArrIter { a, n, i: 0 }, Log::default());
        lx.0.__verif_set_locs(base);
        %(enter)s
        lx.0.__done = done0;
        let mut cl = lx.clone();       // the clone under test
        let witness = lx.clone();      // never touched again: the state at the clone point
        assert!(same(&lx, &cl), "[C15] the clone differs from the original right after cloning");
        let i1 = lx.next();
        assert!(same(&cl, &witness), "[C15] a call on the original changed the clone");
        let after = lx.clone();
        let i2 = cl.next();
        #[cfg(not(kani))]
        if verbose { println!("input {:?} (n={}), rule set {}, done {}: original -> {:?}, clone -> {:?}", &a[..n], n, rs0, done0, i1, i2); }
        assert!(proj(&i1) == proj(&i2), "[C15] the clone yields a different item than the original");
        assert!(same(&cl, &lx), "[C15] the clone is in a different state than the original after the same call");
        assert!(same(&lx, &after), "[C15] a call on the clone changed the original");
    }

    #[cfg(kani)]
    #[kani::proof]
    #[kani::unwind(%(unwind)d)]
    #[kani::stub(unicode_width::UnicodeWidthChar::width, crate::stub_width)]
    pub fn step() {
        let a: [char; N] = kani::any();
        let n: usize = kani::any(); kani::assume(n <= N);
        let base = any_base();
        let rs0: u8 = kani::any(); kani::assume((rs0 as usize) < %(nsets)d);
        let done0: bool = kani::any();
        kani::cover!(done0, "cover: clone after the end of input was handled");
        check(a, n, base, rs0, done0, false);
    }
}
""" % dict(name=d["name"], prelude=PRELUDE.replace("RefItem, RefOut, ghost_locs, rest_eq, consumed", "").replace("use super::{ArrIter, N, Log, };", "use super::{ArrIter, N, Log};"),
           lexer=lexer_text(d), enter=enter, nsets=nsets, unwind=unwind, proj=PROJ)


def ctor_mod(d, N, unwind):
    """C14: string constructor vs iterator constructor on the same characters (at most 2 symbolic scalar values): same items, same logs;
    `new` / `new_from_iter` start in the same state as their `_with_state(Default)` forms"""
    return """
pub mod %(name)s {
    %(prelude)s
    %(lexer)s
%(proj)s
    pub fn check(a: [char; N], n: usize, base: Loc, rs0: u8, done0: bool, verbose: bool) {
        let mut s = String::with_capacity(8);
        if n >= 1 { s.push(a[0]); }
        if n >= 2 { s.push(a[1]); }
        let n2 = if n > 2 { 2 } else { n };
        {
            // the Default-state forms start exactly like the explicit-state forms
            let d1 = L::new(&s); let d2 = L::new_with_state(&s, Log::default());
            assert!(d1.0.__state == d2.0.__state && d1.0.__initial_state == d2.0.__initial_state && d1.0.__done == d2.0.__done && d1.0.match_loc() == d2.0.match_loc()
                    && d1.0.__verif_user_state() == d2.0.__verif_user_state() && d1.0.__verif_last_match_is_none() && d2.0.__verif_last_match_is_none(), "[C14] new and new_with_state start differently");
            let e1 = L::new_from_iter(ArrIter { a, n: n2, i: 0 }); let e2 = L::new_from_iter_with_state(ArrIter { a, n: n2, i: 0 }, Log::default());
            assert!(e1.0.__state == e2.0.__state && e1.0.__initial_state == e2.0.__initial_state && e1.0.__done == e2.0.__done && e1.0.match_loc() == e2.0.match_loc()
                    && e1.0.__verif_user_state() == e2.0.__verif_user_state() && e1.0.__verif_last_match_is_none() && e2.0.__verif_last_match_is_none(), "[C14] new_from_iter and new_from_iter_with_state start differently");
        }
        let mut l2 = L::new_with_state(&s, Log::default());
        let mut l4 = L::new_from_iter_with_state(ArrIter { a, n: n2, i: 0 }, Log::default());
        let mut k = 0;
        while k < 2 {
            let (i2, i4) = (l2.next(), l4.next());
            #[cfg(not(kani))]
            if verbose { println!("call {}: new_with_state {:?} | new_from_iter_with_state {:?}", k, i2, i4); }
            assert!(proj(&i2) == proj(&i4), "[C14] string input and iterator input disagree on an item");
            assert!(l2.0.__verif_user_state() == l4.0.__verif_user_state(), "[C14] action logs disagree between constructors");
            assert!(l2.0.match_loc() == l4.0.match_loc() && l2.0.__done == l4.0.__done && l2.0.__state == l4.0.__state, "[C14] lexer registers disagree between constructors");
            k += 1;
        }
    }

    #[cfg(kani)]
    #[kani::proof]
    #[kani::unwind(%(unwind)d)]
    pub fn step() {
        let a: [char; N] = kani::any();
        let n: usize = kani::any(); kani::assume(n <= 2);
        check(a, n, Loc { line: 0, col: 0, byte_idx: 0 }, 0, false, false);
    }
}
""" % dict(name=d["name"], prelude=PRELUDE.replace("RefItem, RefOut, ghost_locs, rest_eq, consumed", "").replace("use super::{ArrIter, N, Log, };", "use super::{ArrIter, N, Log};"),
           lexer=lexer_text(d), unwind=unwind, proj=PROJ)


def crate_main(defs, N, LOGM):
    """defs: list of (definition, m, unwind, stub_width)"""
    out = [COMMON.replace("@N@", str(N)).replace("@LOGM@", str(LOGM))]
    for (d, m, unwind, sw) in defs:
        form = d.get("form", "step")
        if form == "termination":
            out.append(termination_mod(d, N, unwind))
        elif form == "clone_pair":
            out.append(clone_mod(d, N, unwind))
        elif form == "ctor_pair":
            out.append(ctor_mod(d, N, unwind))
        else:
            out.append(harness_mod(d, N, m, unwind, sw))
    arms = "\n".join('        "%s" => %s::check(a, n, base, rs0, done0, true),' % (d["name"], d["name"]) for (d, _, _, _) in defs)
    sweepable = [(d, m) for (d, m, _, _) in defs if d.get("form", "step") == "step" and not d.get("via")]
    table = "\n".join('        ("%s", %s::check as CheckFn, %d),' % (d["name"], d["name"], len(d["sets"])) for (d, _) in sweepable)
    out.append("""
type CheckFn = fn([char; N], usize, Loc, u8, bool, bool);
const SWEEP: &[(&str, CheckFn, usize)] = &[
%s
];

/// native sweep: every string over the given alphabet of length <= maxlen, every rule set, both values of the done flag, from a
/// non-zero base location; the step contract (`check`) is the same function the Kani harness calls
#[cfg(not(kani))]
fn sweep(name: &str, maxlen: usize, alpha: &[char]) -> i32 {
    let (_, f, nsets) = match SWEEP.iter().find(|e| e.0 == name) { Some(e) => *e, None => { println!("unknown definition"); return 2; } };
    std::panic::set_hook(Box::new(|_| {}));
    let base = Loc { line: 3, col: 5, byte_idx: 17 };
    let mut cases: u64 = 0;
    let maxlen = maxlen.min(N);
    for n in 0..=maxlen {
        let mut idx = vec![0usize; n];
        loop {
            let mut a = ['\\u{0}'; N];
            for k in 0..n { a[k] = alpha[idx[k]]; }
            for rs0 in 0..nsets {
                for done0 in [false, true] {
                    cases += 1;
                    let r = std::panic::catch_unwind(|| f(a, n, base, rs0 as u8, done0, false));
                    if let Err(e) = r {
                        let msg = e.downcast_ref::<String>().cloned().or_else(|| e.downcast_ref::<&str>().map(|s| s.to_string())).unwrap_or_default();
                        let codes: Vec<String> = a.iter().map(|c| (*c as u32).to_string()).collect();
                        println!("SWEEP-FAIL {} n={} rs0={} done0={} base=3,5,17 chars={} msg={}", name, n, rs0, done0 as u8, codes.join(","), msg.replace('\\n', " "));
                        return 3;
                    }
                }
            }
            // odometer
            let mut k = 0;
            while k < n { idx[k] += 1; if idx[k] < alpha.len() { break; } idx[k] = 0; k += 1; }
            if k == n { break; }
        }
    }
    println!("SWEEP-OK {} cases={}", name, cases);
    0
}

/// native replay: <definition> <n> <rs0> <done0> <line> <col> <byte_idx> <c0 c1 ... as u32>
/// native sweep : sweep <definition> <maxlen> <alphabet as u32 ...>
fn main() {
    let args: Vec<String> = std::env::args().collect();
    #[cfg(not(kani))]
    if args.len() >= 5 && args[1] == "sweep" {
        let alpha: Vec<char> = args[4..].iter().map(|v| char::from_u32(v.parse().unwrap()).unwrap_or('?')).collect();
        std::process::exit(sweep(&args[2], args[3].parse().unwrap(), &alpha));
    }
    if args.len() < 8 { return; }
    let n: usize = args[2].parse().unwrap(); let rs0: u8 = args[3].parse().unwrap(); let done0: bool = args[4] != "0";
    let base = Loc { line: args[5].parse().unwrap(), col: args[6].parse().unwrap(), byte_idx: args[7].parse().unwrap() };
    let mut a = ['\\u{0}'; N];
    for k in 0..N { if let Some(v) = args.get(8 + k) { a[k] = char::from_u32(v.parse().unwrap()).unwrap_or('?'); } }
    match args[1].as_str() {
%s
        _ => println!("unknown definition"),
    }
    println!("REPLAY-PASSED (no assertion of the step contract fails natively on this input)");
}
""" % (table, arms))
    return "\n".join(out)
