"""Kani runs: (B) function contracts spliced into a scratch copy of lexgen_util; (C) generated-code harness crates"""
import importlib.util
import os
import re
import shutil
import subprocess
import time

from . import common as C, rustscan as rs


class SpliceError(Exception):
    pass


def load_spec(name):
    p = os.path.join(C.VERIF, "contracts", "kani", name + ".py")
    spec = importlib.util.spec_from_file_location("kani_spec_" + name, p)
    m = importlib.util.module_from_spec(spec)
    spec.loader.exec_module(m)
    return m


def splice_lexgen_util(spec, dst_dir, with_contracts=True):
    """copy the snapshot's lexgen_util crate to dst_dir and splice contracts + harness module into lib.rs.
    Returns a report: which function got which attributes, and the sha of each function's real text."""
    src_dir = os.path.join(C.snapshot(), "crates", "lexgen_util")
    if os.path.exists(dst_dir):
        shutil.rmtree(dst_dir)
    shutil.copytree(src_dir, dst_dir)
    lib = os.path.join(dst_dir, "src", "lib.rs")
    src = open(lib).read()
    edits, report = [], []
    import hashlib
    for fn, attrs in (spec.CONTRACTS.items() if with_contracts else []):
        try:
            item = rs.find_item(src, "fn", fn, impl=spec.IMPL)
        except rs.ScanError as e:
            raise SpliceError("lexgen_util/src/lib.rs: %s" % e)
        off = item.toks[item.first].start
        edits.append((off, "\n    ".join(attrs) + "\n    "))
        report.append({"function": "Lexer::" + fn, "file": "crates/lexgen_util/src/lib.rs", "line": item.line,
                       "source_sha256_16": hashlib.sha256(item.text.encode()).hexdigest()[:16], "attributes": len(attrs)})
    out, last = [], 0
    for off, txt in sorted(edits):
        out.append(src[last:off]); out.append(txt); last = off
    out.append(src[last:])
    new = "".join(out) + "\n" + spec.SPEC_MOD + "\n" + spec.HARNESS_MOD.replace("//@@CONTRACT_HARNESSES@@", spec.CONTRACT_HARNESSES if with_contracts else "")
    open(lib, "w").write(new)
    cargo = os.path.join(dst_dir, "Cargo.toml")
    t = open(cargo).read()
    if "[workspace]" not in t:
        t += "\n[workspace]\n"
    open(cargo, "w").write(t)
    lock = os.path.join(C.snapshot(), "Cargo.lock")
    if os.path.exists(lock):
        shutil.copy(lock, os.path.join(dst_dir, "Cargo.lock"))
    os.makedirs(os.path.join(dst_dir, ".cargo"), exist_ok=True)
    open(os.path.join(dst_dir, ".cargo", "config.toml"), "w").write("[net]\noffline = true\n")
    return report


_RES = re.compile(r"^Checking harness ([^\n]+?)\.\.\.$", re.M)


def parse_kani_output(out):
    """-> {harness: {status, failed_checks:[...], covers:{sat,unsat,...}, time_s, checks}}"""
    res = {}
    parts = re.split(r"^Checking harness ", out, flags=re.M)
    for part in parts[1:]:
        name = part.split("...", 1)[0].strip()
        short = name.split("::")[-1]
        st = "undecided"
        m = re.search(r"VERIFICATION:- (SUCCESSFUL|FAILED)", part)
        if m:
            st = "ok" if m.group(1) == "SUCCESSFUL" else "fail"
        failed = []
        for fm in re.finditer(r"^Failed Checks: ([^\n]*)\n\s*File: \"([^\"]*)\", line (\d+), in ([^\n]*)", part, re.M):
            failed.append({"check": fm.group(1).strip(), "file": fm.group(2), "line": int(fm.group(3)), "in": fm.group(4).strip()})
        if not failed:
            for fm in re.finditer(r"^Failed Checks: ([^\n]*)", part, re.M):
                failed.append({"check": fm.group(1).strip()})
        tm = re.search(r"Verification Time: ([0-9.]+)s", part)
        cm = re.search(r"\*\* (\d+) of (\d+) failed", part)
        cov = re.search(r"\*\* (\d+) of (\d+) cover properties satisfied", part)
        unwind_fail = any("unwinding assertion" in f["check"] for f in failed)
        res[short] = {"harness": name, "status": st, "failed_checks": failed, "time_s": float(tm.group(1)) if tm else None,
                      "checks": int(cm.group(2)) if cm else None, "checks_failed": int(cm.group(1)) if cm else None,
                      "covers": (int(cov.group(1)), int(cov.group(2))) if cov else None, "unwinding_failure": unwind_fail,
                      "raw_tail": part[-1500:] if st != "ok" else ""}
    return res


def _kani_cmd(extra_flags):
    return ["cargo", "kani", "-Z", "function-contracts", "-Z", "stubbing", "--output-format", "terse"] + list(extra_flags)


def run_cargo_kani(crate_dir, harnesses, extra_flags=(), timeout=3600, jobs=None, per_harness_flags=None):
    """codegen once, then one cargo-kani process per harness (in parallel, shared target dir) so that every
    harness has its own output.  -> (results dict, raw outputs dict, cmd template, wall)"""
    import concurrent.futures as cf
    env = dict(os.environ, CARGO_NET_OFFLINE="true", CARGO_TARGET_DIR=os.path.join(crate_dir, "target"))
    t0 = time.time()
    cg = subprocess.run(_kani_cmd(extra_flags) + ["--only-codegen"], cwd=crate_dir, capture_output=True, text=True, env=env)
    if cg.returncode != 0:
        return {}, {"codegen": cg.stdout + cg.stderr}, " ".join(_kani_cmd(extra_flags)), round(time.time() - t0, 1)

    def one(h):
        cmd = _kani_cmd(extra_flags) + list((per_harness_flags or {}).get(h, [])) + ["--harness", h, "--exact"] if False else \
            _kani_cmd(extra_flags) + list((per_harness_flags or {}).get(h, [])) + ["--harness", h]
        t1 = time.time()
        try:
            p = C.run_group(cmd, cwd=crate_dir, env=env, timeout=timeout)
            out = p.stdout + "\n" + p.stderr
        except subprocess.TimeoutExpired as e:
            out = ((e.stdout or b"").decode() if isinstance(e.stdout, bytes) else (e.stdout or "")) + "\nTIMEOUT after %ds" % timeout
        parsed = parse_kani_output(out)
        r = parsed.get(h.split("::")[-1])
        if r is not None and not (r["harness"] == h or r["harness"].endswith("::" + h)):
            r = None
        if r is None:
            r = {"harness": h, "status": "undecided", "failed_checks": [], "time_s": None, "checks": None, "checks_failed": None,
                 "covers": None, "unwinding_failure": False, "raw_tail": out[-2500:]}
        if "TIMEOUT after" in out:
            r["status"] = "undecided"; r["raw_tail"] = "timeout " + out[-1500:]
        if r["status"] == "fail" and not r["failed_checks"]:
            r["status"] = "undecided"; r["raw_tail"] = "verification did not complete (killed / out of memory?) " + out[-1500:]
        r["wall_s"] = round(time.time() - t1, 1)
        return h, r, out

    res, outs = {}, {}
    with cf.ThreadPoolExecutor(max_workers=jobs or min(len(harnesses), C.NCPU) or 1) as ex:
        for h, r, out in ex.map(one, harnesses):
            res[h] = r; outs[h] = out
    return res, outs, " ".join(_kani_cmd(extra_flags)) + " --harness <name>", round(time.time() - t0, 1)
