"""generic runner for properties decided (wholly or partly) by Verus units"""
import concurrent.futures as cf
import json
import time

from . import common as C


def run_units(units):
    """units: list of (name, expected_min_verified).  -> list of result dicts (parallel)"""
    C.snapshot()
    with cf.ThreadPoolExecutor(max_workers=min(len(units), C.NCPU) or 1) as ex:
        futs = [ex.submit(C.run_verus_unit, n, m) for (n, m) in units]
        res = [f.result() for f in futs]
    for r in res:
        if r["status"] == "fail" and not r.get("credible", True):
            # DESIGN 11.13: the edit displaced annotation blocks of the failing item, so the failed obligation may only say that the proof
            # hints no longer fit the text.  It is NOT reported as a violation by itself: the unit is undecided on this tree and the other
            # layers of the check (which run on the real code and produce witnesses) decide.
            r["proof_lost"] = True
            r["status"] = "undecided"
            r["reason"] = "the proof does not carry over to the edited text (%s); obligations that no longer go through: %s [%s]" % (
                "; ".join(r.get("hints_displaced", [])), ", ".join(r.get("failed", [])), "; ".join(dict.fromkeys(e["msg"] for e in r.get("error_messages", []) if not e["msg"].startswith("aborting"))))
    return res


def summarize(results):
    """-> dict with obligations/discharged/functions_under_contract/trusted/assumptions/samples"""
    obligations = discharged = 0
    smt_ms = 0
    fns, samples, trusted, assumptions, rules = [], [], [], [], {}
    for r in results:
        for f in r.get("functions", []):
            obligations += 1
            discharged += 1 if f["success"] else 0
            samples.append({"unit": r["unit"], "obligation": f["function"], "mode": f["mode"], "backend": "verus/z3",
                            "ms": f["ms"], "rlimit": f["rlimit"], "discharged": f["success"]})
        smt_ms += r.get("smt_ms", 0)
        for it in r.get("items", []):
            if it.get("trusted"):
                trusted.append("outlined fragment (R7, not verified) in unit %s: %s" % (r["unit"], " ".join(it["text"].split())[:200]))
                continue
            if it["item"].startswith("fn ") or it["item"].startswith("block "):
                fns.append({"unit": r["unit"], "function": it["item"][3:] if it["item"].startswith("fn ") else it["item"] + " (block of a function, rule B1)", "file": it["file"], "line": it.get("line"),
                            "source_sha256_16": it["sha256"], "text_identical_to_template_skeleton": it["identical"],
                            "annotation_blocks": it.get("annotation_blocks", 0)})
            for ru in it.get("rules", []):
                k = ru["rule"]
                rules.setdefault(k, {"firings": 0, "notes": set()})
                rules[k]["firings"] += ru["n"]
                rules[k]["notes"].add("%s: %s" % (it["item"], ru["note"]))
        for a in r.get("assumptions", []):
            assumptions.append("[%s] %s" % (r["unit"], a))
    rules = {k: {"firings": v["firings"], "notes": sorted(v["notes"])} for k, v in sorted(rules.items())}
    return {"obligations": obligations, "discharged": discharged, "smt_ms": smt_ms, "functions_under_contract": fns,
            "samples": samples, "trusted_fragments": trusted, "assumption_scan": sorted(set(assumptions)), "extraction_rules": rules}


def failure_text(r):
    """human-readable body of a replay file for a failed / undecided unit"""
    out = ["unit: %s" % r["unit"], "status: %s" % r["status"], "reason: %s" % r.get("reason", ""),
           "failed functions: %s" % ", ".join(r.get("failed", [])), "generated file (scratch, removed at exit): %s" % r.get("generated_file", ""), ""]
    for e in r.get("error_messages", []):
        out.append("verus: %s  [generated line %d]  %s" % (e["msg"], e["line"], e.get("source", "")))
    out.append("")
    out.append("extracted items:")
    for it in r.get("items", []):
        out.append("  %s  %s:%s sha256/16=%s identical_to_template=%s %s" % (it["item"], it["file"], it.get("line"), it["sha256"],
                                                                             it["identical"], it.get("differences", "")))
    out.append("")
    out.append("---- verifier output (tail) ----")
    out.append(r.get("stderr", "")[-6000:])
    return "\n".join(out)


def obligation_name(r):
    msgs = [e["msg"] for e in r.get("error_messages", []) if not e["msg"].startswith("aborting")]
    return "%s::%s [%s]" % (r["unit"], "+".join(r.get("failed", [])) or "?", "; ".join(dict.fromkeys(msgs)) or "verification failed")
