"""Layer C: build and run generated-code step harnesses (bounded, Kani) against the macro from the snapshot"""
import os
import shutil
import hashlib

from . import common as C, rustscan as rs, kani_run as K, gen_corpus as G

ACCESSOR = '''
#[cfg(kani)]
impl<'input, I: Iterator<Item = char> + Clone, T, S, E, W> Lexer<'input, I, T, S, E, W> {
    /// verification-only (exists only in the scratch copy): place the lexer at a symbolic base location
    pub fn __verif_set_locs(&mut self, base: Loc) { self.iter_loc = base; self.current_match_start = base; self.current_match_end = base; }
    pub fn __verif_last_match_is_none(&self) -> bool { self.last_match.is_none() }
}
'''


def prepare_util(dst_dir):
    """scratch copy of the snapshot's lexgen_util with the read/write accessor appended (nothing else changed)"""
    src_dir = os.path.join(C.snapshot(), "crates", "lexgen_util")
    if os.path.exists(dst_dir):
        shutil.rmtree(dst_dir)
    shutil.copytree(src_dir, dst_dir)
    lib = os.path.join(dst_dir, "src", "lib.rs")
    open(lib, "a").write("\n" + ACCESSOR)
    cargo = os.path.join(dst_dir, "Cargo.toml")
    t = open(cargo).read()
    if "[workspace]" not in t:
        open(cargo, "w").write(t + "\n[workspace]\n")


def build_crate(name, defs, N, LOGM):
    """-> crate dir.  defs: list of (definition, m, unwind, stub_width)"""
    root = os.path.join(C.scratch(), "layerc_" + name)
    if os.path.exists(root):
        shutil.rmtree(root)
    os.makedirs(os.path.join(root, "src"))
    util = os.path.join(C.scratch(), "layerc_util")
    if not os.path.exists(util):
        prepare_util(util)
    open(os.path.join(root, "Cargo.toml"), "w").write('''[package]
name = "layerc_%s"
version = "0.0.0"
edition = "2021"
[dependencies]
lexgen = { path = "%s/crates/lexgen" }
lexgen_util = { path = "%s" }
unicode-width = "0.2.0"
[workspace]
[lints.rust]
unexpected_cfgs = { level = "allow", check-cfg = ['cfg(kani)'] }
''' % (name, C.snapshot(), util))
    main = G.crate_main(defs, N, LOGM)
    open(os.path.join(root, "src", "main.rs"), "w").write(main)
    lock = os.path.join(C.snapshot(), "Cargo.lock")
    if os.path.exists(lock):
        shutil.copy(lock, os.path.join(root, "Cargo.lock"))
    os.makedirs(os.path.join(root, ".cargo"), exist_ok=True)
    open(os.path.join(root, ".cargo", "config.toml"), "w").write("[net]\noffline = true\n")
    return root


def run(name, defs, N, LOGM, timeout=1500, jobs=None):
    root = build_crate(name, defs, N, LOGM)
    harnesses = ["%s::step" % d["name"] for (d, _, _, _) in defs]
    res, outs, cmd, wall = K.run_cargo_kani(root, harnesses, timeout=timeout, jobs=jobs)
    return root, res, outs, cmd, wall
