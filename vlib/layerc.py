"""Layer C: build and run generated-code step harnesses (bounded, Kani) against the macro from the snapshot"""
import os
import shutil
import hashlib

from . import common as C, rustscan as rs, kani_run as K, gen_corpus as G

ACCESSOR = '''
impl<'input, I: Iterator<Item = char> + Clone, T, S, E, W> Lexer<'input, I, T, S, E, W> {
    /// verification-only (exists only in the scratch copy): place the lexer at a symbolic base location
    pub fn __verif_set_locs(&mut self, base: Loc) { self.iter_loc = base; self.current_match_start = base; self.current_match_end = base; }
    pub fn __verif_last_match_is_none(&self) -> bool { self.last_match.is_none() }
    pub fn __verif_user_state(&self) -> &S { &self.user_state }
}
'''


def prepare_util(dst_dir):
    """scratch copy of the snapshot's lexgen_util with the read/write accessor appended (nothing else changed)"""
    src_dir = os.path.join(C.snapshot(), "crates", "lexgen_util")
    if os.path.exists(dst_dir):
        shutil.rmtree(dst_dir)
    shutil.copytree(src_dir, dst_dir)
    lib = os.path.join(dst_dir, "src", "lib.rs")
    open(lib, "a").write("\n" + ACCESSOR)
    cargo = os.path.join(dst_dir, "Cargo.toml")
    t = open(cargo).read()
    if "[workspace]" not in t:
        open(cargo, "w").write(t + "\n[workspace]\n")


_UTIL_LOCK = __import__("threading").Lock()


def ensure_util():
    """the scratch copy of lexgen_util with the accessors, prepared once per run (callers may be concurrent threads)"""
    util = os.path.join(C.scratch(), "layerc_util")
    with _UTIL_LOCK:
        if not os.path.exists(os.path.join(util, ".prepared")):
            if os.path.exists(util):
                shutil.rmtree(util)
            prepare_util(util)
            open(os.path.join(util, ".prepared"), "w").write("ok\n")
    return util


def build_crate(name, defs, N, LOGM):
    """-> crate dir.  defs: list of (definition, m, unwind, stub_width)"""
    root = os.path.join(C.scratch(), "layerc_" + name)
    if os.path.exists(root):
        shutil.rmtree(root)
    os.makedirs(os.path.join(root, "src"))
    util = ensure_util()
    open(os.path.join(root, "Cargo.toml"), "w").write('''[package]
name = "layerc_%s"
version = "0.0.0"
edition = "2021"
[dependencies]
lexgen = { path = "%s/crates/lexgen" }
lexgen_util = { path = "%s" }
unicode-width = "0.2.0"
[workspace]
[lints.rust]
unexpected_cfgs = { level = "allow", check-cfg = ['cfg(kani)'] }
''' % (name, C.snapshot(), util))
    main = G.crate_main(defs, N, LOGM)
    open(os.path.join(root, "src", "main.rs"), "w").write(main)
    lock = os.path.join(C.snapshot(), "Cargo.lock")
    if os.path.exists(lock):
        shutil.copy(lock, os.path.join(root, "Cargo.lock"))
    os.makedirs(os.path.join(root, ".cargo"), exist_ok=True)
    open(os.path.join(root, ".cargo", "config.toml"), "w").write("[net]\noffline = true\n")
    return root


def run(name, defs, N, LOGM, timeout=1500, jobs=None):
    root = build_crate(name, defs, N, LOGM)
    harnesses = ["%s::step" % d["name"] for (d, _, _, _) in defs]
    res, outs, cmd, wall = K.run_cargo_kani(root, harnesses, timeout=timeout, jobs=jobs)
    return root, res, outs, cmd, wall


def unwind_bound(d, N, m):
    """dispatch-loop rounds allowed per call: every round reads at most N characters plus the end of input,
    and re-reads after a rewind belong to the next round"""
    if d.get("unwind"):
        return d["unwind"]
    return max(m * (N + 1) + 2, N + 3)


def settings(d, tier):
    if tier == "thorough":
        return d.get("Nt", d["N"] + 1 if d["m"] == 1 else d["N"]), d.get("mt", d["m"])
    return d["N"], d["m"]


LAYERC_FLAGS = ("-Z", "unstable-options", "--no-memory-safety-checks", "--no-assertion-reach-checks")


def run_defs(defs, tier, timeout=1500, jobs=None, extra_flags=LAYERC_FLAGS):
    """run the step harness of every definition; one crate per (N, m) group, groups in parallel.
    -> list of dicts(def, N, m, unwind, result, output)"""
    import concurrent.futures as cf
    groups = {}
    for d in defs:
        N, m = settings(d, tier)
        groups.setdefault((N, m), []).append(d)
    ensure_util()
    C.snapshot()
    total_jobs = jobs or C.NCPU
    out = []

    def one_group(key):
        N, m = key
        ds = groups[key]
        root = build_crate("g%d_%d" % (N, m), [(d, m, unwind_bound(d, N, m), not d.get("width")) for d in ds], N, m)
        harnesses = ["%s::step" % d["name"] for d in ds]
        share = max(1, total_jobs * len(ds) // max(1, len(defs)))
        res, outs, cmd, wall = K.run_cargo_kani(root, harnesses, timeout=timeout, jobs=share, extra_flags=extra_flags)
        roots = {d["name"]: root for d in ds}
        if len(ds) > 1 and all(res.get(h) is None for h in harnesses):
            # the crate of the group does not build (typically the macro panics on ONE of its definitions - C12's business): every
            # definition gets its own crate, so that the others are still checked
            res, outs2 = {}, {}
            for d in ds:
                r1 = build_crate("g%d_%d_%s" % (N, m, d["name"]), [(d, m, unwind_bound(d, N, m), not d.get("width"))], N, m)
                rr, oo, cmd, _w = K.run_cargo_kani(r1, ["%s::step" % d["name"]], timeout=timeout, jobs=share, extra_flags=extra_flags)
                res.update(rr)
                outs2["%s::step" % d["name"]] = oo.get("%s::step" % d["name"], oo.get("codegen", ""))
                roots[d["name"]] = r1
            outs = dict(outs, **outs2)
        rows = []
        for d in ds:
            h = "%s::step" % d["name"]
            r = res.get(h)
            if r is None:
                r = {"harness": h, "status": "undecided", "failed_checks": [], "time_s": None, "checks": None, "covers": None,
                     "unwinding_failure": False, "raw_tail": outs.get("codegen", "")[-3000:], "wall_s": None}
            rows.append({"def": d, "N": N, "m": m, "unwind": unwind_bound(d, N, m), "result": r, "output": outs.get(h, ""), "cmd": cmd, "crate": roots[d["name"]]})
        return rows

    with cf.ThreadPoolExecutor(max_workers=len(groups) or 1) as ex:
        for rows in ex.map(one_group, list(groups)):
            out.extend(rows)
    return out


def playback(row, timeout=1800):
    """re-run a failed harness with concrete playback and decode the witness of each failed check.
    -> list of dicts(check, a, n, base, rs0, done0)"""
    import re
    import subprocess
    d, N = row["def"], row["N"]
    h = "%s::step" % d["name"]
    env = dict(os.environ, CARGO_NET_OFFLINE="true", CARGO_TARGET_DIR=os.path.join(row["crate"], "target"))
    cmd = ["cargo", "kani", "-Z", "function-contracts", "-Z", "stubbing", "-Z", "concrete-playback", "--concrete-playback=print", "--harness", h]
    try:
        p = C.run_group(cmd, cwd=row["crate"], env=env, timeout=timeout)
    except subprocess.TimeoutExpired:
        return []
    out = p.stdout
    wit = []
    for blk in re.split(r"Concrete playback unit test for", out)[1:]:
        m = re.search(r"Check for `([a-z_]+)`: \"(.*)\"\n", blk)
        if not m or m.group(1) == "cover":
            continue
        vals = [[int(x) for x in v.split(",") if x.strip()] for v in re.findall(r"vec!\[([0-9, ]*)\],", blk)]
        try:
            nums = [int.from_bytes(bytes(v), "little") for v in vals]
            a = nums[:N]
            n, line, col, byte_idx, rs0, done0 = nums[N:N + 6]
        except Exception:
            continue
        wit.append({"check": m.group(2).strip('"'), "a": a, "n": n, "base": (line, col, byte_idx), "rs0": rs0, "done0": done0})
    return wit


def native_replay(row, w, timeout=900):
    """build the harness crate natively (real macro from the snapshot, real lexgen_util) and run the witness"""
    import subprocess
    env = dict(os.environ, CARGO_NET_OFFLINE="true", CARGO_TARGET_DIR=os.path.join(row["crate"], "target_native"))
    b = C.run_group(["cargo", "build", "--offline", "-q"], cwd=row["crate"], env=env, timeout=timeout)
    if b.returncode != 0:
        return "native build failed:\n" + b.stderr[-2000:]
    import re
    pkg = re.search(r'name\s*=\s*"([^"]+)"', open(os.path.join(row["crate"], "Cargo.toml")).read()).group(1)
    args = [row["def"]["name"], str(w["n"]), str(w["rs0"]), str(w["done0"]), str(w["base"][0]), str(w["base"][1]), str(w["base"][2])] + [str(x) for x in w["a"]]
    p = subprocess.run([os.path.join(row["crate"], "target_native", "debug", pkg)] + args, capture_output=True, text=True, timeout=120)
    return "$ <harness crate> %s\n%s\n%s" % (" ".join(args), p.stdout, p.stderr[-1500:])
