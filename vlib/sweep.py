"""Native sweep of the step contract: the harness crate of layer C is built NATIVELY (real macro of the snapshot, real lexgen_util) and
its `check` function - the same function the Kani harnesses call - is run on every string over a small alphabet up to a stated length,
from every rule set, with both values of the end-of-input flag.  A bounded stand-in by execution (never counted as proved); it widens
the sample of lexer definitions far beyond what CBMC can afford (seeded random definitions, corpus/random_defs.py)."""
import os
import re
import concurrent.futures as cf

from . import common as C, layerc as LC, gen_corpus as G


def chars_of(r, acc):
    k = r[0]
    if k == "chr":
        acc.append(r[1])
    elif k == "str":
        acc.extend(r[1])
    elif k == "set":
        for x in r[1]:
            if isinstance(x, tuple):
                acc.extend([x[0], x[1]])
            else:
                acc.append(x)
    elif k == "raw":
        chars_of(r[2], acc)
    elif k in ("star", "plus", "opt"):
        chars_of(r[1], acc)
    elif k in ("cat", "or", "diff"):
        for x in r[1:]:
            chars_of(x, acc)


def alphabet(d, size=5):
    acc = []
    for (_, rules) in d["sets"]:
        for r in rules:
            chars_of(r["re"], acc)
            if r.get("ctx"):
                chars_of(r["ctx"], acc)
    for (_, re_) in d.get("lets", []):
        chars_of(re_, acc)
    for lets in (d.get("set_lets") or {}).values():
        for (_, re_) in lets:
            chars_of(re_, acc)
    seen = []
    for ch in acc:
        if ch not in seen and len(ch) == 1:
            seen.append(ch)
    seen = seen[:size]
    # one character no rule mentions, and a newline (locations)
    for extra in ("~", "\n"):
        if extra not in seen:
            seen.append(extra)
    return seen


def run(defs, tag, N, m, maxlen, timeout=1200, per_def_timeout=600):
    """-> list of dict(def, status ok|fail|undecided, cases, fail=dict(...)|None, cmd)"""
    ds = [d for d in defs if d.get("form", "step") == "step" and not d.get("via")]
    if not ds:
        return []
    # one package, several binaries (src/bin/part_k.rs, CHUNK definitions each): cargo compiles the binaries in parallel
    CHUNK = 40
    chunks = [ds[i:i + CHUNK] for i in range(0, len(ds), CHUNK)]
    root = LC.build_crate("sweep_" + tag, [(d, m, 0, True) for d in chunks[0]], N, m)
    os.makedirs(os.path.join(root, "src", "bin"), exist_ok=True)
    os.remove(os.path.join(root, "src", "main.rs"))
    part_of = {}
    for k, ch in enumerate(chunks):
        open(os.path.join(root, "src", "bin", "part_%d.rs" % k), "w").write(G.crate_main([(d, m, 0, True) for d in ch], N, m))
        for d in ch:
            part_of[d["name"]] = "part_%d" % k
    env = dict(os.environ, CARGO_NET_OFFLINE="true", CARGO_TARGET_DIR=os.path.join(root, "target_native"))
    b = C.run_group(["cargo", "build", "--offline", "-q", "--release", "--bins", "--keep-going"], cwd=root, env=env, timeout=timeout)
    unbuilt = {}
    if b.returncode != 0:
        # some binary does not build (typically: the macro panics on, or generates uncompilable code for, one of its definitions - C12's
        # business).  The definitions of the binaries that did not build are rebuilt ONE PER BINARY, so that one bad definition does not
        # blind the sweep of the others.
        bad_parts = [k for k in range(len(chunks)) if not os.path.exists(os.path.join(root, "target_native", "release", "part_%d" % k))]
        singles = []
        for k in bad_parts:
            os.remove(os.path.join(root, "src", "bin", "part_%d.rs" % k))
            for d in chunks[k]:
                nm = "one_%s" % d["name"]
                open(os.path.join(root, "src", "bin", nm + ".rs"), "w").write(G.crate_main([(d, m, 0, True)], N, m))
                part_of[d["name"]] = nm
                singles.append(d)
        b2 = C.run_group(["cargo", "build", "--offline", "-q", "--release", "--bins", "--keep-going"], cwd=root, env=env, timeout=timeout)
        for d in singles:
            if not os.path.exists(os.path.join(root, "target_native", "release", part_of[d["name"]])):
                mo = re.search(r"(proc macro panicked[^\n]*\n[^\n]*\n[^\n]*)", b2.stderr)
                unbuilt[d["name"]] = "the definition does not expand / compile on this tree (C12 decides that): " + (b2.stderr[-300:] if not mo else mo.group(1)[:300])

    def one(d):
        if d["name"] in unbuilt:
            return {"def": d, "status": "undecided", "reason": unbuilt[d["name"]], "crate": root}
        al = alphabet(d)
        binary = os.path.join(root, "target_native", "release", part_of[d["name"]])
        args = [binary, "sweep", d["name"], str(d.get("sweep_maxlen", maxlen))] + [str(ord(ch)) for ch in al]
        try:
            p = C.run_group(args, timeout=per_def_timeout)
        except Exception as e:  # time-out
            return {"def": d, "status": "undecided", "reason": "sweep did not finish: %s" % e, "crate": root, "cmd": " ".join(args)}
        mo = re.search(r"^SWEEP-OK \S+ cases=(\d+)", p.stdout, re.M)
        if mo:
            return {"def": d, "status": "ok", "cases": int(mo.group(1)), "alphabet": al, "crate": root, "cmd": " ".join(args)}
        mf = re.search(r"^SWEEP-FAIL (\S+) n=(\d+) rs0=(\d+) done0=(\d+) base=(\d+),(\d+),(\d+) chars=(\S+) msg=(.*)$", p.stdout, re.M)
        if mf:
            return {"def": d, "status": "fail", "alphabet": al, "crate": root, "cmd": " ".join(args),
                    "fail": {"n": int(mf.group(2)), "rs0": int(mf.group(3)), "done0": int(mf.group(4)), "base": [int(mf.group(5)), int(mf.group(6)), int(mf.group(7))],
                             "a": [int(x) for x in mf.group(8).split(",")], "msg": mf.group(9)}}
        return {"def": d, "status": "undecided", "reason": "unexpected sweep output: %s %s" % (p.stdout[-300:], p.stderr[-300:]), "crate": root, "cmd": " ".join(args)}

    with cf.ThreadPoolExecutor(max_workers=C.NCPU) as ex:
        return list(ex.map(one, ds))


def replay(row):
    """verbose native replay of a failing case (the real lexer's item, the reference's item, the state after the call)"""
    f = row["fail"]
    pkg = os.path.basename(row["cmd"].split()[0])
    args = [row["cmd"].split()[0], row["def"]["name"], str(f["n"]), str(f["rs0"]), str(f["done0"]), str(f["base"][0]), str(f["base"][1]), str(f["base"][2])] + [str(x) for x in f["a"]]
    try:
        p = C.run_group(args, timeout=60)
        return "$ <sweep crate> %s\n%s\n%s" % (" ".join(args[1:]), p.stdout, p.stderr[-1500:])
    except Exception as e:
        return "replay failed: %s" % e
