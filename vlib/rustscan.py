"""Minimal Rust tokenizer and item locator (stdlib only).

Tokens carry character offsets into the source so that text can be spliced without
re-printing it.  Comments and white space are not tokens.
"""
import re
from collections import namedtuple

Tok = namedtuple("Tok", "kind text start end")  # kind: id num str chr life punct

_ID = re.compile(r"[A-Za-z_][A-Za-z0-9_]*")
_NUM = re.compile(r"[0-9][0-9A-Za-z_]*(\.[0-9][0-9A-Za-z_]*)?")


class ScanError(Exception):
    pass


def tokenize(src):
    toks = []
    i, n = 0, len(src)
    while i < n:
        c = src[i]
        if c.isspace():
            i += 1
            continue
        if src.startswith("//", i):
            j = src.find("\n", i)
            i = n if j < 0 else j
            continue
        if src.startswith("/*", i):
            depth, j = 1, i + 2
            while j < n and depth:
                if src.startswith("/*", j):
                    depth += 1; j += 2
                elif src.startswith("*/", j):
                    depth -= 1; j += 2
                else:
                    j += 1
            i = j
            continue
        # raw strings / byte strings
        m = re.match(r"b?r(#*)\"", src[i:i + 40])
        if m and (i == 0 or not (src[i - 1].isalnum() or src[i - 1] == "_")):
            hashes = m.group(1)
            close = '"' + hashes
            j = src.find(close, i + m.end())
            if j < 0:
                raise ScanError("unterminated raw string")
            j += len(close)
            toks.append(Tok("str", src[i:j], i, j)); i = j
            continue
        if c == '"' or (c == "b" and src.startswith('b"', i)):
            j = i + (2 if c == "b" else 1)
            while j < n and src[j] != '"':
                j += 2 if src[j] == "\\" else 1
            j += 1
            toks.append(Tok("str", src[i:j], i, j)); i = j
            continue
        if c == "'" or (c == "b" and src.startswith("b'", i)):
            k = i + (1 if c == "b" else 0)
            # char literal or lifetime
            if k + 1 < n and src[k + 1] == "\\":
                j = k + 3
                while j < n and src[j] != "'":
                    j += 1
                j += 1
                toks.append(Tok("chr", src[i:j], i, j)); i = j
                continue
            if k + 2 < n and src[k + 2] == "'":
                j = k + 3
                toks.append(Tok("chr", src[i:j], i, j)); i = j
                continue
            m = _ID.match(src, k + 1)
            if m:
                toks.append(Tok("life", src[i:m.end()], i, m.end())); i = m.end()
                continue
            # multi-byte char literal like 'é'
            j = src.find("'", k + 1)
            if 0 <= j <= k + 6:
                toks.append(Tok("chr", src[i:j + 1], i, j + 1)); i = j + 1
                continue
            raise ScanError("bad quote at %d" % i)
        m = _ID.match(src, i)
        if m:
            toks.append(Tok("id", m.group(0), i, m.end())); i = m.end()
            continue
        m = _NUM.match(src, i)
        if m:
            toks.append(Tok("num", m.group(0), i, m.end())); i = m.end()
            continue
        toks.append(Tok("punct", c, i, i + 1)); i += 1
    return toks


OPEN = {"(": ")", "[": "]", "{": "}"}
CLOSE = {")": "(", "]": "[", "}": "{"}


def match_close(toks, i):
    """index of the token closing the bracket opened at toks[i]"""
    assert toks[i].text in OPEN
    depth = 0
    for j in range(i, len(toks)):
        t = toks[j]
        if t.kind == "punct":
            if t.text in OPEN:
                depth += 1
            elif t.text in CLOSE:
                depth -= 1
                if depth == 0:
                    return j
    raise ScanError("unbalanced bracket")


def texts(toks):
    return [t.text for t in toks]


def norm(s):
    return texts(tokenize(s))


def _item_start(toks, k):
    """walk back from keyword token k (fn/struct/enum) over visibility / qualifiers; returns
    (index of first token of the item proper, index of first attribute token or same)"""
    i = k
    while i > 0:
        p = toks[i - 1]
        if p.kind == "id" and p.text in ("pub", "const", "unsafe", "async", "extern", "default"):
            i -= 1
            continue
        if p.text == ")" and i >= 2:
            # pub(crate) / pub(super)
            j = i - 1
            depth = 0
            while j >= 0:
                if toks[j].text == ")":
                    depth += 1
                elif toks[j].text == "(":
                    depth -= 1
                    if depth == 0:
                        break
                j -= 1
            if j >= 1 and toks[j - 1].text == "pub":
                i = j - 1
                continue
        break
    a = i
    # attributes  #[...]
    while a >= 2 and toks[a - 1].text == "]":
        j = a - 1
        depth = 0
        while j >= 0:
            if toks[j].text == "]":
                depth += 1
            elif toks[j].text == "[":
                depth -= 1
                if depth == 0:
                    break
            j -= 1
        if j >= 1 and toks[j - 1].text == "#":
            a = j - 1
        else:
            break
    return i, a


def _enclosing_headers(toks, k):
    """list of header token-text lists of the brace blocks enclosing token k (outermost first)"""
    stack = []
    hdr_start = 0
    for j in range(k):
        t = toks[j]
        if t.kind != "punct":
            continue
        if t.text == "{":
            stack.append(texts(toks[hdr_start:j]))
            hdr_start = j + 1
        elif t.text == "}":
            if stack:
                stack.pop()
            hdr_start = j + 1
        elif t.text == ";":
            hdr_start = j + 1
    return stack


class Item:
    def __init__(self, src, toks, first, body_open, last, attrs_first, headers):
        self.src, self.toks = src, toks
        self.first, self.body_open, self.last = first, body_open, last
        self.attrs_first = attrs_first
        self.headers = headers  # enclosing block headers (token texts)

    @property
    def text(self):
        return self.src[self.toks[self.first].start:self.toks[self.last].end]

    @property
    def attrs_text(self):
        if self.attrs_first == self.first:
            return ""
        return self.src[self.toks[self.attrs_first].start:self.toks[self.first].start]

    @property
    def line(self):
        return self.src.count("\n", 0, self.toks[self.first].start) + 1


def find_items(src, kw, name):
    """all items `kw name` (kw in fn/struct/enum) in src"""
    toks = tokenize(src)
    out = []
    for k in range(len(toks) - 1):
        if toks[k].kind == "id" and toks[k].text == kw and toks[k + 1].text == name and toks[k + 1].kind == "id":
            if k > 0 and toks[k - 1].text in (".", "::"):
                continue
            first, afirst = _item_start(toks, k)
            # body: first '{' at bracket depth 0 after the name, or ';'
            j = k + 2
            depth = 0
            body = None
            while j < len(toks):
                t = toks[j]
                if t.kind == "punct":
                    if t.text in "([":
                        depth += 1
                    elif t.text in ")]":
                        depth -= 1
                    elif t.text == "<":
                        pass
                    elif t.text == "{" and depth == 0:
                        body = j
                        break
                    elif t.text == ";" and depth == 0:
                        break
                j += 1
            if body is None:
                last = j
                body = j
            else:
                last = match_close(toks, body)
            out.append(Item(src, toks, first, body, last, afirst, _enclosing_headers(toks, k)))
    return out


def find_item(src, kw, name, impl=None, nth=None):
    items = find_items(src, kw, name)
    if impl is not None:
        want = norm(impl)
        items = [it for it in items if it.headers and it.headers[-1] == want]
    if nth is not None:
        items = items[nth:nth + 1]
    if len(items) != 1:
        raise ScanError("expected exactly one `%s %s`%s, found %d" % (kw, name, (" in `%s`" % impl) if impl else "", len(items)))
    return items[0]
