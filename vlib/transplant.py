"""Template-driven mechanical extraction of real Rust items into a Verus file.

A template (contracts/verus/*.vt) is a Verus source file in which the executable items are
*not* authoritative: every region

    //@@ item <kw> <name> file=<repo-relative path> [impl="<impl header>"] [nth=<k>] [rules=<r1;r2;...>]
    ... item text as it looks after extraction, annotation lines end with `//@`,
        annotation blocks are bracketed by lines `//@{` and `//@}` ...
    //@@ end

is replaced, on every run, by the text of the real item taken from the snapshot of /repo:

  1. the item is located by keyword + name (+ enclosing impl header);
  2. the listed rewrite rules (R-rules, purely syntactic, each firing counted) are applied;
  3. the token sequence of the result is aligned (difflib) with the token sequence of the
     region *minus its annotation lines*; annotation blocks are then inserted into the REAL
     text at the aligned positions.  Executable tokens are never taken from the template.

On the unchanged tree the alignment is the identity (reported as identical=true); on a
modified tree the annotations follow the code they were attached to and the verifier judges
the modified code.
"""
import difflib
import hashlib
import re

from . import rustscan as rs


class TransplantError(Exception):
    """extraction impossible (lost item, rule not applicable): undecided, never a violation"""


# ----------------------------------------------------------------------------------------
# rewrite rules.  Each takes the item text and returns (new_text, firings:int, note:str)

def _tok(text):
    return rs.tokenize(text)


def _splice(text, edits):
    """edits: list of (start, end, replacement) on text, non-overlapping"""
    out, last = [], 0
    for s, e, r in sorted(edits):
        out.append(text[last:s]); out.append(r); last = e
    out.append(text[last:])
    return "".join(out)


def _sig_end(toks):
    """index of the `{` opening the body of a fn item"""
    depth = 0
    for j, t in enumerate(toks):
        if t.kind == "punct":
            if t.text in "([":
                depth += 1
            elif t.text in ")]":
                depth -= 1
            elif t.text == "{" and depth == 0:
                return j
    raise TransplantError("no body")


def rule_mutparam(text, arg):
    """R12: `mut x: T` parameter -> `x_0: T` + `let mut x = x_0;` as first statement"""
    toks = _tok(text)
    body = _sig_end(toks)
    for j in range(body - 1):
        if toks[j].text == "mut" and toks[j + 1].text == arg and toks[j + 2].text == ":":
            edits = [(toks[j].start, toks[j + 1].end, arg + "_0"),
                     (toks[body].end, toks[body].end, "\n        let mut %s = %s_0; // R12" % (arg, arg))]
            return _splice(text, edits), 1, "mut parameter `%s` renamed to `%s_0` and re-bound" % (arg, arg)
    raise TransplantError("R12: parameter `mut %s` not found" % arg)


def rule_retname(text, arg):
    """R14: `-> T` in the signature -> `-> (arg: T)` (Verus needs a name for the result)"""
    toks = _tok(text)
    body = _sig_end(toks)
    depth = 0
    arrow = None
    for j in range(body):
        t = toks[j]
        if t.text in "([<":
            depth += 1 if t.text != "<" else 0
        elif t.text in ")]":
            depth -= 1
        elif t.text == "-" and toks[j + 1].text == ">" and depth == 0 and arrow is None:
            arrow = j
    if arrow is None:
        raise TransplantError("R14: no return type")
    end = body
    for j in range(arrow + 2, body):
        if toks[j].text == "where" and toks[j].kind == "id":
            end = j
            break
    s, e = toks[arrow + 2].start, toks[end - 1].end
    return _splice(text, [(s, e, "(%s: %s)" % (arg, text[s:e]))]), 1, "result named `%s`" % arg


def rule_fnptr(text, arg):
    """R3: parameter type `fn(T) -> U` -> `impl Fn(T) -> U`"""
    toks = _tok(text)
    body = _sig_end(toks)
    edits = []
    for j in range(body):
        if toks[j].kind == "id" and toks[j].text == "fn" and toks[j + 1].text == "(" and j > 0 and toks[j - 1].text == ":":
            edits.append((toks[j].start, toks[j].end, "impl Fn"))
    if not edits:
        raise TransplantError("R3: no fn-pointer parameter")
    return _splice(text, edits), len(edits), "fn-pointer parameter type -> impl Fn"


def rule_charmax(text, arg):
    """R6: `char::MAX` -> '\\u{10FFFF}'"""
    toks = _tok(text)
    edits = []
    for j in range(len(toks) - 3):
        if [t.text for t in toks[j:j + 4]] == ["char", ":", ":", "MAX"]:
            edits.append((toks[j].start, toks[j + 3].end, "'\\u{10FFFF}'"))
    return _splice(text, edits), len(edits), "char::MAX -> '\\u{10FFFF}'"


def rule_asserteq(text, arg):
    """R5: assert_eq!(a, b) -> assert!(a == b)"""
    toks = _tok(text)
    edits = []
    for j in range(len(toks) - 2):
        if toks[j].text == "assert_eq" and toks[j + 1].text == "!" and toks[j + 2].text == "(":
            close = rs.match_close(toks, j + 2)
            depth = 0
            comma = None
            for k in range(j + 3, close):
                t = toks[k]
                if t.text in "([{":
                    depth += 1
                elif t.text in ")]}":
                    depth -= 1
                elif t.text == "," and depth == 0 and comma is None:
                    comma = k
            if comma is None:
                raise TransplantError("R5: malformed assert_eq!")
            a = text[toks[j + 2].end:toks[comma].start].strip()
            b = text[toks[comma].end:toks[close].start].strip().rstrip(",")
            edits.append((toks[j].start, toks[close].end, "assert!((%s) == (%s))" % (a, b)))
    return _splice(text, edits), len(edits), "assert_eq!(a, b) -> assert!((a) == (b))"


def rule_assertmsg(text, arg):
    """R19: assert!(cond, "format", args..) -> assert!(cond): the panic message is dropped, the condition (the obligation) stays"""
    toks = _tok(text)
    edits = []
    for j in range(len(toks) - 2):
        if toks[j].text == "assert" and toks[j + 1].text == "!" and toks[j + 2].text == "(":
            close = rs.match_close(toks, j + 2)
            depth = 0
            for k in range(j + 3, close):
                t = toks[k]
                if t.text in "([{":
                    depth += 1
                elif t.text in ")]}":
                    depth -= 1
                elif t.text == "," and depth == 0:
                    if k + 1 < close:
                        edits.append((toks[k].start, toks[close].start, ""))
                    else:
                        edits.append((toks[k].start, toks[k].end, ""))
                    break
    if not edits:
        raise TransplantError("R19: no assert! with a message")
    return _splice(text, edits), len(edits), "assert!(cond, message..) -> assert!(cond)"


def rule_forcontinue(text, arg):
    """R4: `for x in LO..=HI { B }` (B contains `continue`) ->
       `let mut __it = LO; let __hi = HI; let mut __fin = false;
        while !__fin && __it <= __hi { let x = __it; if __it == __hi { __fin = true; } else { __it += 1; } B }`"""
    toks = _tok(text)
    for j in range(len(toks)):
        if toks[j].kind == "id" and toks[j].text == "for" and toks[j + 2].text == "in":
            var = toks[j + 1].text
            # find `..=` at depth 0 and the body brace
            depth = 0
            dots = None
            k = j + 3
            while k < len(toks):
                t = toks[k]
                if t.text in "([":
                    depth += 1
                elif t.text in ")]":
                    depth -= 1
                elif depth == 0 and t.text == "." and toks[k + 1].text == "." and toks[k + 2].text == "=":
                    dots = k
                elif depth == 0 and t.text == "{":
                    break
                k += 1
            if dots is None:
                continue
            body_open = k
            body_close = rs.match_close(toks, body_open)
            body_txt = text[toks[body_open].end:toks[body_close].start]
            if "continue" not in rs.norm(body_txt):
                continue
            lo = text[toks[j + 3].start:toks[dots - 1].end]
            hi = text[toks[dots + 3].start:toks[body_open - 1].end]
            new = ("let mut __it: u32 = %s; let __hi: u32 = %s; let mut __fin = false;\n    while !__fin && __it <= __hi {\n"
                   "        let %s = __it;\n        if __it == __hi { __fin = true; } else { __it += 1; }" % (lo, hi, var))
            return _splice(text, [(toks[j].start, toks[body_open].end, new)]), 1, \
                "for-with-continue over an inclusive u32 range desugared to while (cross-checked by execution)"
    raise TransplantError("R4: no `for .. in a..=b` loop containing `continue`")


def rule_iterret(text, arg):
    """R11: return type `impl Iterator<...>` narrowed to the concrete type given as argument"""
    toks = _tok(text)
    body = _sig_end(toks)
    for j in range(body):
        if toks[j].text == "impl" and toks[j + 1].text == "Iterator":
            return _splice(text, [(toks[j].start, toks[body - 1].end, arg)]), 1, "return type narrowed to %s" % arg
    raise TransplantError("R11: no `impl Iterator` return type")


def rule_fields(text, arg):
    """R10: struct reduced to the named fields"""
    keep = set(arg.split(","))
    toks = _tok(text)
    body = _sig_end(toks)
    close = rs.match_close(toks, body)
    # split fields at depth-0 commas
    fields, start, depth = [], body + 1, 0
    for k in range(body + 1, close):
        t = toks[k]
        if t.text in "([{<":
            depth += 1
        elif t.text in ")]}>":
            depth -= 1
        elif t.text == "," and depth == 0:
            fields.append((start, k)); start = k + 1
    if start < close:
        fields.append((start, close - 1))
    edits, dropped = [], 0
    prev_end = toks[body].end
    for (a, b) in fields:
        # field name: the identifier before the first ':' at depth 0 (skip attrs / pub)
        name = None
        for k in range(a, b + 1):
            if toks[k].text == ":" and toks[k - 1].kind == "id":
                name = toks[k - 1].text
                break
        # span = everything since the previous separator (doc comments included) up to this field's trailing comma
        end = toks[b + 1].end if b + 1 < close and toks[b + 1].text == "," else toks[b].end
        if name not in keep:
            edits.append((prev_end, end, "")); dropped += 1
        prev_end = end
    return _splice(text, edits), dropped, "struct reduced to fields {%s} (%d dropped)" % (arg, dropped)


def rule_subst(text, arg):
    """generic token-sequence substitution `old=>new` (used for type aliases R9 etc.)"""
    old, new = arg.split("=>")
    pat = rs.norm(old)
    toks = _tok(text)
    edits = []
    j = 0
    while j + len(pat) <= len(toks):
        if [t.text for t in toks[j:j + len(pat)]] == pat:
            edits.append((toks[j].start, toks[j + len(pat) - 1].end, new)); j += len(pat)
        else:
            j += 1
    if not edits:
        raise TransplantError("subst: `%s` not found" % old)
    return _splice(text, edits), len(edits), "`%s` -> `%s`" % (old.strip(), new.strip())


def rule_closurespec(text, arg):
    """R13: the (single) closure `|x| e` gets an in-place specification:
       arg = 'x: T -> (r: U) requires ..., ensures ...,'  ; the expression e is untouched"""
    toks = _tok(text)
    hits = []
    for j in range(len(toks) - 2):
        if toks[j].text == "|" and toks[j + 1].kind == "id" and toks[j + 2].text == "|":
            hits.append(j)
    if len(hits) != 1:
        raise TransplantError("R13: expected exactly one single-parameter closure, found %d" % len(hits))
    j = hits[0]
    var = toks[j + 1].text
    # closure body: up to the matching ')' of the enclosing call or ',' at depth 0
    depth, k = 0, j + 3
    while k < len(toks):
        t = toks[k]
        if t.text in "([{":
            depth += 1
        elif t.text in ")]}":
            if depth == 0:
                break
            depth -= 1
        elif t.text == "," and depth == 0:
            break
        k += 1
    e = text[toks[j + 3].start:toks[k - 1].end]
    head = arg.replace("$x", var)
    return _splice(text, [(toks[j].start, toks[k - 1].end, "|%s { %s }" % (head, e))]), 1, "closure given an in-place spec"


def rule_outline(text, arg):
    """R7: the statement starting with the given token prefix is moved verbatim into a trusted
    helper.  arg = '<prefix> ==> <replacement statement>'.  The helper itself is written in the
    template as a separate `outlined` region that receives the verbatim statement text."""
    prefix, repl = arg.split("==>")
    pat = rs.norm(prefix)
    toks = _tok(text)
    for j in range(len(toks) - len(pat)):
        if [t.text for t in toks[j:j + len(pat)]] == pat:
            # statement end: `;` at depth 0, or a closing brace of a block statement followed by no `;`
            depth, k = 0, j
            while k < len(toks):
                t = toks[k]
                if t.text in "([{":
                    depth += 1
                elif t.text in ")]}":
                    depth -= 1
                    if depth == 0 and t.text == "}" and toks[j].text in ("for", "while", "loop", "if", "match"):
                        break
                elif t.text == ";" and depth == 0:
                    break
                k += 1
            stmt = text[toks[j].start:toks[k].end]
            _TLS.captured.append(stmt)
            return _splice(text, [(toks[j].start, toks[k].end, repl.strip())]), 1, "statement `%s ...` outlined (trusted)" % prefix.strip()
    raise TransplantError("R7: statement `%s` not found" % prefix)


_TLS = __import__("threading").local()  # units are expanded in parallel threads: the R7 captures are per thread
_TLS.captured = []


def rule_dropstmt(text, arg):
    """R8: the statement starting with the given token prefix is dropped (its condition must be
    restated as a precondition in the template)"""
    pat = rs.norm(arg)
    toks = _tok(text)
    for j in range(len(toks) - len(pat)):
        if [t.text for t in toks[j:j + len(pat)]] == pat:
            depth, k = 0, j
            first_kw = [t.text for t in toks[j:j + len(pat)] if t.kind == "id" and t.text in ("for", "while", "loop", "if", "match")]
            while k < len(toks):
                t = toks[k]
                if t.text in "([{":
                    depth += 1
                elif t.text in ")]}":
                    depth -= 1
                    if depth == 0 and t.text == "}" and first_kw:
                        break
                elif t.text == ";" and depth == 0:
                    break
                k += 1
            stmt = text[toks[j].start:toks[k].end]
            return _splice(text, [(toks[j].start, toks[k].end, "")]), 1, "statement dropped, restated as precondition: " + " ".join(stmt.split())
    raise TransplantError("R8: statement `%s` not found" % arg)


def rule_bracearm(text, arg):
    """R15: the match arm `PAT => EXPR,` (PAT given as token prefix) becomes `PAT => { EXPR }` so that a proof block can sit in it"""
    pat = rs.norm(arg) + ["=", ">"]
    toks = _tok(text)
    for j in range(len(toks) - len(pat)):
        if [t.text for t in toks[j:j + len(pat)]] == pat:
            k = j + len(pat)
            if toks[k].text == "{":
                return text, 0, "arm already braced"
            depth, e = 0, k
            while e < len(toks):
                t = toks[e]
                if t.text in "([{":
                    depth += 1
                elif t.text in ")]}":
                    if depth == 0:
                        break
                    depth -= 1
                elif t.text == "," and depth == 0:
                    break
                e += 1
            return _splice(text, [(toks[k].start, toks[k].start, "{ "), (toks[e - 1].end, toks[e - 1].end, " }")]), 1, "match arm `%s =>` braced" % arg
    raise TransplantError("R15: arm `%s` not found" % arg)


def rule_nameiter(text, arg):
    """R16: `for x in EXPR` (selected by the token prefix `for x in`) becomes `for x in it: EXPR` - Verus names the ghost iterator so
    that loop invariants can mention it; no executable token changes"""
    name = "it"
    if "=>" in arg:
        arg, name = [x.strip() for x in arg.split("=>")]
    pat = rs.norm(arg)
    toks = _tok(text)
    for j in range(len(toks) - len(pat)):
        if [t.text for t in toks[j:j + len(pat)]] == pat:
            k = j + len(pat)
            return _splice(text, [(toks[k].start, toks[k].start, name + ": ")]), 1, "ghost iterator of `%s` named `%s`" % (arg, name)
    raise TransplantError("R16: loop `%s` not found" % arg)


def rule_patclosure(text, arg):
    """R17: the (single) closure with a tuple-pattern parameter `|(a, b)| BODY` becomes
       `|p: T| -> (o: U) <spec> { let (a, b) = p; BODY }`; arg = 'T -> (o: U) <spec>'.  BODY is untouched."""
    toks = _tok(text)
    hits = [j for j in range(len(toks) - 1) if toks[j].text == "|" and toks[j + 1].text == "("]
    if len(hits) != 1:
        raise TransplantError("R17: expected exactly one closure with a tuple-pattern parameter, found %d" % len(hits))
    j = hits[0]
    close = rs.match_close(toks, j + 1)
    if toks[close + 1].text != "|":
        raise TransplantError("R17: unexpected closure head")
    pat = text[toks[j + 1].start:toks[close].end]
    # body: up to the `)` closing the call the closure is an argument of
    depth, k = 0, close + 2
    while k < len(toks):
        t = toks[k]
        if t.text in "([{":
            depth += 1
        elif t.text in ")]}":
            if depth == 0:
                break
            depth -= 1
        elif t.text == "," and depth == 0:
            break
        k += 1
    body = text[toks[close + 2].start:toks[k - 1].end]
    ty, _, spec = arg.partition("->")
    new = "|p: %s| ->%s { let %s = p; %s }" % (ty.strip(), spec, pat, body)
    return _splice(text, [(toks[j].start, toks[k - 1].end, new)]), 1, "closure parameter pattern %s bound by `let`, in-place spec added" % pat


def rule_nullaryclosure(text, arg):
    """R18: the (single) parameterless closure `|| EXPR` gets an in-place specification: `|| <arg> { EXPR }` (EXPR untouched)"""
    toks = _tok(text)
    hits = [j for j in range(len(toks) - 1) if toks[j].text == "|" and toks[j + 1].text == "|" and toks[j + 1].start == toks[j].end
            and (j == 0 or toks[j - 1].text in "(,=")]
    if len(hits) != 1:
        raise TransplantError("R18: expected exactly one parameterless closure, found %d" % len(hits))
    j = hits[0]
    depth, k = 0, j + 2
    while k < len(toks):
        t = toks[k]
        if t.text in "([{":
            depth += 1
        elif t.text in ")]}":
            if depth == 0:
                break
            depth -= 1
        elif t.text == "," and depth == 0:
            break
        k += 1
    e = text[toks[j + 2].start:toks[k - 1].end]
    return _splice(text, [(toks[j].start, toks[k - 1].end, "|| %s { %s }" % (arg.strip(), e))]), 1, "parameterless closure given the in-place spec `%s`" % arg.strip()


RULES = {
    "R18": rule_nullaryclosure,
    "R19": rule_assertmsg,
    "R17": rule_patclosure,
    "R16": rule_nameiter,
    "R15": rule_bracearm,
    "R12": rule_mutparam, "R14": rule_retname, "R3": rule_fnptr, "R6": rule_charmax, "R5": rule_asserteq,
    "R4": rule_forcontinue, "R11": rule_iterret, "R10": rule_fields, "subst": rule_subst, "R13": rule_closurespec,
    "R7": rule_outline, "R8": rule_dropstmt,
}

# ----------------------------------------------------------------------------------------

_ITEM_RE = re.compile(r"^\s*//@@ item (\w+) (\w+)(.*)$")


def _parse_attrs(s):
    out = {}
    for m in re.finditer(r'(\w+)=("([^"]*)"|\S+)', s):
        out[m.group(1)] = m.group(3) if m.group(3) is not None else m.group(2)
    return out


def _split_region(lines):
    """-> (exec_text, blocks) where blocks = [(n_exec_tokens_before, annotation_text)]"""
    exec_lines, blocks = [], []
    cur, in_block = [], False
    ntok = 0

    def flush():
        nonlocal cur
        if cur:
            blocks.append((ntok, "\n".join(cur)))
            cur = []

    for ln in lines:
        st = ln.strip()
        if st == "//@{":
            in_block = True
            continue
        if st == "//@}":
            in_block = False
            continue
        if in_block:
            cur.append(ln)
            continue
        if st.endswith("//@"):
            cur.append(ln.rstrip()[:-3].rstrip())
            continue
        if st == "" or st.startswith("//"):
            continue  # blank / comment lines of the template are not code
        flush()
        exec_lines.append(ln)
        ntok += len(rs.tokenize(ln))
    flush()
    return "\n".join(exec_lines), blocks


_INTACT_BEFORE, _INTACT_AFTER = 12, 2
_MOVE_MIN = 8  # tokens; shorter coincidences are not treated as moved code


def _align(tmpl_toks, real_toks):
    """map template token position (0..len) -> real token position"""
    sm = difflib.SequenceMatcher(None, tmpl_toks, real_toks, autojunk=False)
    ops = sm.get_opcodes()
    matched_t = {}  # template token index -> real token index
    for tag, i1, i2, j1, j2 in ops:
        if tag == "equal":
            for d in range(i2 - i1):
                matched_t[i1 + d] = j1 + d
    # moved code: a span of template tokens without counterpart (delete / replace) that re-appears verbatim among the real tokens
    # without counterpart (insert / replace) - swapped branches, reordered statements.  The annotations inside such a span move with it.
    moved = {}  # template token index -> real token index
    t_un = [(i1, i2) for tag, i1, i2, j1, j2 in ops if tag in ("delete", "replace") and i2 - i1 >= _MOVE_MIN]
    r_un = [(j1, j2) for tag, i1, i2, j1, j2 in ops if tag in ("insert", "replace") and j2 - j1 >= _MOVE_MIN]
    used = set()
    for (i1, i2) in t_un:
        best = None
        for (j1, j2) in r_un:
            m = difflib.SequenceMatcher(None, tmpl_toks[i1:i2], real_toks[j1:j2], autojunk=False).find_longest_match(0, i2 - i1, 0, j2 - j1)
            if m.size >= _MOVE_MIN and (best is None or m.size > best[0]):
                best = (m.size, i1 + m.a, j1 + m.b)
        if best:
            size, ta, rb = best
            if not any((rb + d) in used for d in range(size)):
                for d in range(size):
                    moved[ta + d] = rb + d
                    used.add(rb + d)

    def pos(i):
        if i - 1 in matched_t:
            return matched_t[i - 1] + 1
        if i - 1 in moved:
            return moved[i - 1] + 1
        if i in matched_t:
            return matched_t[i]
        if i in moved:
            return moved[i]
        for tag, i1, i2, j1, j2 in ops:
            if tag != "equal" and i1 <= i <= i2:
                return j2
        return len(real_toks)

    def deleted(i):
        """the template token just before position i lies in a span of template tokens that has NO counterpart in the real text
        (an annotation block is attached to the code it follows: loop head -> invariants, `{` -> ghost lets, statement -> proof block)"""
        if i - 1 in moved:
            return False
        for tag, i1, i2, j1, j2 in ops:
            if tag == "delete" and i1 <= i - 1 < i2:
                return True
        return False

    def intact(i):
        """the annotation block at template position i still sits in the same code: the _INTACT_BEFORE code tokens before it (the statement
        it comments on) and the _INTACT_AFTER tokens after it are unchanged and contiguous in the real text"""
        n = len(tmpl_toks)
        lo, hi = max(0, i - _INTACT_BEFORE), min(n, i + _INTACT_AFTER)
        if hi <= lo:
            return True
        if any(k not in matched_t for k in range(lo, hi)):
            return False
        return all(matched_t[k + 1] == matched_t[k] + 1 for k in range(lo, hi - 1))

    pos.deleted = deleted
    pos.intact = intact
    return pos, ops


_IDENT = re.compile(r"^[A-Za-z_][A-Za-z0-9_]*$")
_KEYWORDS = set("as break const continue crate else enum extern false fn for if impl in let loop match mod move mut pub ref return self Self static struct super trait true type unsafe use where while dyn".split())


def _renames(t_toks, r_toks, ops):
    cand = {}
    bad = set()
    for tag, i1, i2, j1, j2 in ops:
        if tag != "replace" or (i2 - i1) != (j2 - j1):
            continue
        for d in range(i2 - i1):
            a, b = t_toks[i1 + d], r_toks[j1 + d]
            if a == b:
                continue
            if not (_IDENT.match(a) and _IDENT.match(b)) or a in _KEYWORDS or b in _KEYWORDS:
                continue
            if not (a[0].islower() or a[0] == "_") or not (b[0].islower() or b[0] == "_"):
                continue  # locals only (types, variants and constants are not renamed by this rule)
            if cand.get(a, b) != b:
                bad.add(a)
            cand[a] = b
    out = {}
    for a, b in cand.items():
        if a in bad:
            continue
        # every occurrence of a in the template must have become b, and b must be new
        if a in r_toks or b in t_toks:
            continue
        if t_toks.count(a) != r_toks.count(b):
            continue
        out[a] = b
    return out


class _Block:
    """a `{ .. }` block inside a function, presented like an Item; with `upto`, the block is cut before the statement that starts with
    the given token prefix and closed with a synthetic `}` (the statements after the cut are not part of the verified text)"""
    def __init__(self, src, start, end, cut=False):
        self.src, self.start, self.end, self.cut = src, start, end, cut
        self.attrs_text = ""
        self.headers = []

    @property
    def text(self):
        return self.src[self.start:self.end] + ("}" if self.cut else "")

    @property
    def line(self):
        return self.src.count("\n", 0, self.start) + 1


def _find_block(src, attrs):
    """B1: the first `{ .. }` block after the token prefix `prefix` inside function `fn` (optionally of impl `impl`)"""
    f = rs.find_item(src, "fn", attrs["fn"], impl=attrs.get("impl"))
    base = f.toks[f.first].start
    text = f.text
    toks = rs.tokenize(text)
    pat = rs.norm(attrs["prefix"])
    hits = [j for j in range(len(toks) - len(pat) + 1) if [t.text for t in toks[j:j + len(pat)]] == pat]
    if len(hits) != 1:
        raise rs.ScanError("block prefix `%s` found %d times in fn %s" % (attrs["prefix"], len(hits), attrs["fn"]))
    k = hits[0] + len(pat)
    while k < len(toks) and toks[k].text != "{":
        k += 1
    if k >= len(toks):
        raise rs.ScanError("no block after `%s`" % attrs["prefix"])
    close = rs.match_close(toks, k)
    if "upto" in attrs:
        up = rs.norm(attrs["upto"])
        depth = 0
        for j in range(k + 1, close):
            if toks[j].text in "([{":
                depth += 1
            elif toks[j].text in ")]}":
                depth -= 1
            elif depth == 0 and [t.text for t in toks[j:j + len(up)]] == up:
                return _Block(src, base + toks[k].start, base + toks[j].start, cut=True)
        raise rs.ScanError("`upto` prefix `%s` not found at the top level of the block after `%s`" % (attrs["upto"], attrs["prefix"]))
    return _Block(src, base + toks[k].start, base + toks[close].end)


def expand(template_text, repo_root, read=None):
    """-> (verus_source, report).  report: list of dicts, one per item region"""
    read = read or (lambda p: open(p).read())
    lines = template_text.split("\n")
    out, report = [], []
    i = 0
    _TLS.captured = []
    all_renames = {}
    while i < len(lines):
        m = _ITEM_RE.match(lines[i])
        if not m:
            out.append(lines[i]); i += 1
            continue
        kw, name, rest = m.group(1), m.group(2), m.group(3)
        attrs = _parse_attrs(rest)
        j = i + 1
        while j < len(lines) and lines[j].strip() != "//@@ end":
            j += 1
        if j >= len(lines):
            raise TransplantError("unterminated item region %s %s" % (kw, name))
        region = lines[i + 1:j]
        i = j + 1
        if kw == "outlined":
            # body of a trusted helper := verbatim text captured by an R7 rule (in order)
            idx = int(attrs.get("n", "0"))
            if idx >= len(_TLS.captured):
                raise TransplantError("outlined region %s: nothing captured" % name)
            body = _TLS.captured[idx]
            txt = "\n".join(region)
            if all_renames:
                # the helper's template text names the locals of the outlined statement: it follows the renames found in the items
                arx = re.compile(r"\b(%s)\b" % "|".join(re.escape(k) for k in all_renames))
                txt = arx.sub(lambda m: all_renames[m.group(1)], txt)
            txt = txt.replace("/*@OUTLINED@*/", body)
            out.append(txt)
            report.append({"item": "outlined " + name, "file": attrs.get("file", ""), "trusted": True,
                           "sha256": hashlib.sha256(body.encode()).hexdigest()[:16], "text": body,
                           "rules": [], "identical": True})
            continue
        path = attrs["file"]
        src = read("%s/%s" % (repo_root, path))
        if "presubst" in attrs:
            # Q1: the item lives inside a quote! template; an interpolation (`#ident`) is replaced by a fixed identifier so that the
            # template text is plain Rust.  Nothing else of the file is touched.
            old, new = attrs["presubst"].split("=>")
            if src.count(old) == 0:
                raise TransplantError("%s: interpolation `%s` not found" % (path, old))
            src = src.replace(old, new)
        try:
            if kw == "block":
                item = _find_block(src, attrs)
            else:
                item = rs.find_item(src, kw, name, impl=attrs.get("impl"), nth=int(attrs["nth"]) if "nth" in attrs else None)
        except rs.ScanError as e:
            raise TransplantError("%s: %s" % (path, e))
        real = item.text
        fired = []
        if kw == "block":
            fired.append({"rule": "B1", "n": 1, "note": "block `{ .. }` following `%s` inside fn %s verified as the body of a function whose header (parameters = the variables "
                                                         "the block uses, with their types) is supplied by the template; the statement header itself is not verified%s" % (attrs["prefix"], attrs["fn"], ("; the block is cut before `%s`: the statements from there on are not part of the verified text" % attrs["upto"]) if "upto" in attrs else "")})
        if item.attrs_text.strip():
            fired.append({"rule": "R1", "n": 1, "note": "attributes dropped: " + " ".join(item.attrs_text.split())})
        rules_s = attrs.get("rules", "")
        # rule arguments name locals as the template knows them: a preliminary alignment (before any rule) finds renamed locals, and the
        # rule arguments follow them
        pre_exec, _pre_blocks = _split_region(region)
        _pp, pre_ops = _align(rs.norm(pre_exec), rs.texts(rs.tokenize(real)))
        pre_ren = _renames(rs.norm(pre_exec), rs.texts(rs.tokenize(real)), pre_ops)
        pre_ren = {a: b for a, b in pre_ren.items() if not re.search(r"\b%s\b" % re.escape(b), rules_s)}
        if pre_ren:
            prx = re.compile(r"\b(%s)\b" % "|".join(re.escape(k) for k in pre_ren))
        for r in [x.strip() for x in (rules_s.split(";;") if ";;" in rules_s else rules_s.split(";")) if x.strip()]:
            rname, _, rarg = r.partition(":")
            if pre_ren:
                rarg = prx.sub(lambda m: pre_ren[m.group(1)], rarg)
            if rname not in RULES:
                raise TransplantError("unknown rule " + rname)
            try:
                real, n, note = RULES[rname](real, rarg)
                fired.append({"rule": rname, "n": n, "note": note})
            except TransplantError as e:
                # the construct the rule rewrites is gone (the tree was modified): go on without it; the verifier then judges the
                # text as it is (a front-end error leaves the unit undecided, it never becomes a violation by itself)
                fired.append({"rule": rname, "n": 0, "note": "NOT APPLICABLE on this tree: %s" % e})
        exec_text, blocks = _split_region(region)
        t_toks = rs.norm(exec_text)
        r_tokobjs = rs.tokenize(real)
        r_toks = rs.texts(r_tokobjs)
        pos, ops = _align(t_toks, r_toks)
        identical = t_toks == r_toks
        # renamed locals: an identifier of the template that is replaced by ONE other identifier at every occurrence (and that new name is
        # not used in the template for anything else) is a rename; the annotations follow it
        renames = _renames(t_toks, r_toks, ops)
        all_renames.update(pre_ren)
        all_renames.update(renames)
        if renames:
            rx = re.compile(r"\b(%s)\b" % "|".join(re.escape(k) for k in renames))
            blocks = [(n, rx.sub(lambda m: renames[m.group(1)], ann)) for (n, ann) in blocks]
            fired.append({"rule": "RN", "n": len(renames), "note": "locals renamed on this tree, annotations follow: " + ", ".join("%s->%s" % kv for kv in sorted(renames.items()))})
        inserts = {}
        dropped_blocks = []
        # proof hints = annotation blocks INSIDE the body; the block in front of the body's opening brace is the contract itself
        # (requires / ensures / the B1 header): a contract does not go stale when the body changes, so it is never counted as displaced
        body_open = t_toks.index("{") if "{" in t_toks else len(t_toks)
        displaced = [" ".join(ann.split())[:80] for (n_before, ann) in blocks if n_before > body_open and not pos.intact(n_before)]
        for (n_before, ann) in blocks:
            if n_before == len(t_toks) - 1 and len(r_tokobjs) >= 1:
                # an annotation block right before the closing token of the item (a final obligation): it stays right before the closing
                # token of the real item, whatever the alignment did with the braces in between
                off = r_tokobjs[-2].end if len(r_tokobjs) >= 2 else 0
                inserts.setdefault(off, []).append(ann)
                continue
            if pos.deleted(n_before):
                # the code this annotation block sat in was deleted on this tree: the block goes with it (the contract of the item stays,
                # so what the deleted code was needed for now fails as a postcondition / invariant instead of as a syntax error)
                dropped_blocks.append(" ".join(ann.split())[:100])
                continue
            p = pos(n_before)
            off = r_tokobjs[p - 1].end if p > 0 else 0
            inserts.setdefault(off, []).append(ann)
        pieces, last = [], 0
        for off in sorted(inserts):
            pieces.append(real[last:off])
            pieces.append("\n" + "\n".join(inserts[off]) + "\n")
            last = off
        pieces.append(real[last:])
        out.append("// ---- extracted: %s %s from %s:%d ----" % (kw, name, path, item.line))
        out.append("".join(pieces))
        diffs = [(tag, " ".join(t_toks[i1:i2])[:120], " ".join(r_toks[j1:j2])[:120]) for tag, i1, i2, j1, j2 in ops if tag != "equal"]
        report.append({"item": "%s %s" % (kw, name), "file": path, "line": item.line, "impl": attrs.get("impl"),
                       "sha256": hashlib.sha256(item.text.encode()).hexdigest()[:16], "tokens": len(r_toks),
                       "annotation_blocks": len(blocks), "rules": fired, "identical": identical, "differences": diffs[:20],
                       "annotation_blocks_dropped_with_deleted_code": dropped_blocks,
                       # blocks whose neighbouring code tokens changed: the proof hints may no longer say what they said (see DESIGN 11.13)
                       "annotation_blocks_displaced": len(displaced), "displaced_sample": displaced[:4]})
    return "\n".join(out), report
