"""shared driver pieces: scratch snapshot of /repo, Verus runs, evidence, exit protocol"""
import atexit
import json
import os
import re
import shutil
import subprocess
import sys
import tempfile
import time

from . import transplant

VERIF = os.path.dirname(os.path.dirname(os.path.abspath(__file__)))
REPO = os.environ.get("VERIF_REPO", "/repo")
SCRATCH_BASE = os.environ.get("VERIF_SCRATCH", "/var/tmp/lexgen-verif")
TIER = os.environ.get("VERIF_TIER", "quick")
SEED = int(os.environ.get("VERIF_SEED", "0") or 0)
NCPU = int(os.environ.get("VERIF_JOBS", str(os.cpu_count() or 4)))

EXIT_OK, EXIT_VIOLATION, EXIT_UNDECIDED = 0, 1, 2

_scratch = None


_LOCK = __import__("threading").RLock()  # checks run their layers in threads: scratch() / snapshot() must hand every thread the same directory


def scratch():
    """fresh scratch dir outside /repo, /verif and /tmp; removed at exit"""
    global _scratch
    with _LOCK:
        if _scratch is None:
            os.makedirs(SCRATCH_BASE, exist_ok=True)
            _scratch = tempfile.mkdtemp(prefix="run-", dir=SCRATCH_BASE)
            if not os.environ.get("VERIF_KEEP"):
                atexit.register(lambda: shutil.rmtree(_scratch, ignore_errors=True))
        return _scratch


_snap = None


def snapshot():
    """copy of /repo's WORKING TREE (not HEAD), without .git and build output"""
    global _snap
    with _LOCK:
        if _snap is None:
            dst = os.path.join(scratch(), "repo")
            subprocess.run(["rsync", "-a", "--exclude", "/target", "--exclude", "/.git", "--exclude", "target/",
                            REPO.rstrip("/") + "/", dst + "/"], check=True)
            _snap = dst
        return _snap


def repo_head():
    try:
        h = subprocess.run(["git", "-C", REPO, "rev-parse", "--short", "HEAD"], capture_output=True, text=True).stdout.strip()
        d = subprocess.run(["git", "-C", REPO, "status", "--porcelain"], capture_output=True, text=True).stdout.strip()
        return h + ("+dirty" if d else "")
    except Exception:
        return "unknown"


# ----------------------------------------------------------------------------------------
# Verus

ASSUMPTION_PATTERNS = [r"\bassume\s*\(", r"\badmit\s*\(", r"external_body", r"assume_specification", r"\baxiom\b",
                       r"external_type_specification", r"\buninterp\b"]


def scan_assumptions(text):
    """mechanical scan of a generated Verus file for unproved assumptions -> list of one-line strings"""
    out = []
    lines = text.split("\n")
    for i, ln in enumerate(lines):
        s = ln.strip()
        if s.startswith("//"):
            continue
        for pat in ASSUMPTION_PATTERNS:
            if re.search(pat, ln):
                ctx = s
                if "external_body" in s and i + 1 < len(lines):
                    ctx = s + " " + lines[i + 1].strip()
                out.append(" ".join(ctx.split())[:220])
                break
    return out


def run_group(cmd, timeout=None, **kw):
    """subprocess.run(capture_output=True, text=True) in its own process group; on time-out the WHOLE group is killed
    (cargo -> rustc / cbmc grandchildren would otherwise survive and keep a core busy for hours)"""
    import signal
    p = subprocess.Popen(cmd, stdout=subprocess.PIPE, stderr=subprocess.PIPE, text=True, start_new_session=True, **kw)
    try:
        out, err = p.communicate(timeout=timeout)
    except subprocess.TimeoutExpired:
        try:
            os.killpg(p.pid, signal.SIGKILL)
        except ProcessLookupError:
            pass
        p.communicate()
        raise
    except BaseException:
        try:
            os.killpg(p.pid, signal.SIGKILL)
        except ProcessLookupError:
            pass
        raise
    return subprocess.CompletedProcess(cmd, p.returncode, out, err)


def run_verus_unit(name, expected_min_verified=1, timeout=900):
    """expand contracts/verus/<name>.vt against the snapshot and run Verus on it"""
    t0 = time.time()
    res = {"unit": name, "tool": "verus", "status": "undecided", "failed": [], "verified": 0, "items": [], "assumptions": []}
    tmpl = open(os.path.join(VERIF, "contracts", "verus", name + ".vt")).read()
    try:
        src, report = transplant.expand(tmpl, snapshot())
    except transplant.TransplantError as e:
        res["reason"] = "extraction: %s" % e
        res["wall_s"] = round(time.time() - t0, 2)
        return res
    res["items"] = report
    d = os.path.join(scratch(), "verus")
    os.makedirs(d, exist_ok=True)
    f = os.path.join(d, name + ".rs")
    open(f, "w").write(src)
    res["generated_file"] = f
    res["assumptions"] = scan_assumptions(src)
    cmd = ["verus", name + ".rs", "--output-json", "--time", "--multiple-errors", "5"]
    res["cmd"] = " ".join(cmd)
    try:
        p = run_group(cmd, cwd=d, timeout=timeout)
    except subprocess.TimeoutExpired:
        res["reason"] = "verus timeout after %ds" % timeout
        res["wall_s"] = round(time.time() - t0, 2)
        return res
    res["stderr"] = p.stderr[-20000:]
    try:
        js = json.loads(p.stdout)
    except Exception:
        res["reason"] = "verus produced no JSON (exit %d): %s" % (p.returncode, p.stderr[-600:])
        res["wall_s"] = round(time.time() - t0, 2)
        return res
    vr = js.get("verification-results", {})
    res["verified"] = vr.get("verified", 0)
    res["errors"] = vr.get("errors", 0)
    smt = js.get("times-ms", {}).get("smt", {})
    res["smt_ms"] = smt.get("total", 0)
    res["verus_version"] = js.get("verus", {}).get("version", "")
    funcs = []
    for m in smt.get("smt-run-module-times", []):
        for fb in m.get("function-breakdown", []):
            funcs.append({"function": fb["function"].split("::", 1)[-1], "mode": fb.get("mode:", ""), "ms": fb.get("time", 0),
                          "rlimit": fb.get("rlimit", 0), "success": fb.get("success", False)})
    res["functions"] = funcs
    # error messages with locations from stderr
    errs = []
    for m in re.finditer(r"^error(?:\[E\d+\])?: ([^\n]*)\n\s*--> [^:\n]*:(\d+):(\d+)", p.stderr, re.M):
        errs.append({"msg": m.group(1), "line": int(m.group(2))})
    res["error_messages"] = errs
    compile_error = bool(re.search(r"^error\[E\d+\]", p.stderr, re.M)) or vr.get("encountered-vir-error") or \
        (vr.get("encountered-error") and not funcs and not vr.get("verified"))
    rlimit = any("rlimit" in e["msg"].lower() or "resource limit" in e["msg"].lower() for e in errs)
    failed = [f for f in funcs if not f["success"]]
    if compile_error:
        res["reason"] = "verus front-end / compile error: " + "; ".join(e["msg"] for e in errs[:3])
    elif failed:
        if rlimit and all("rlimit" in e["msg"].lower() or "resource limit" in e["msg"].lower() for e in errs):
            res["reason"] = "resource limit exceeded in " + ", ".join(f["function"] for f in failed)
        else:
            src_lines = src.split("\n")
            for e in errs:
                e["source"] = src_lines[e["line"] - 1].strip()[:160] if 0 < e["line"] <= len(src_lines) else ""
            res["status"] = "fail"
            res["failed"] = [f["function"] for f in failed]
            # is the failure credible as a statement about the code?  If the edit displaced annotation blocks of a failing item (their
            # neighbouring code tokens changed, were moved or deleted), the proof hints may simply no longer fit: the failure then says
            # "the proof does not carry over", not "the contract is broken" (DESIGN 11.13).
            by_name = {}
            for it in report:
                nm = it["item"].split(" ", 1)[1] if " " in it["item"] else it["item"]
                by_name.setdefault(nm, []).append(it)
            disp = []
            for fn_ in res["failed"]:
                its = by_name.get(fn_.split("::")[-1])
                if its is None:
                    its = [it for it in report if not it.get("trusted")]  # a lemma / spec of the template failed: any displaced item may be the reason
                for it in its:
                    if it.get("annotation_blocks_displaced", 0) > 0:
                        disp.append("%s: %d of %d annotation blocks displaced" % (it["item"], it["annotation_blocks_displaced"], it.get("annotation_blocks", 0)))
            res["hints_displaced"] = sorted(set(disp))
            res["credible"] = not disp
    elif vr.get("success") and res["verified"] >= expected_min_verified:
        res["status"] = "ok"
    elif vr.get("success"):
        res["reason"] = "vacuity guard: only %d functions verified, expected at least %d" % (res["verified"], expected_min_verified)
    else:
        res["reason"] = "verus reported failure without a failed function: " + p.stderr[-400:]
    res["wall_s"] = round(time.time() - t0, 2)
    return res


# ----------------------------------------------------------------------------------------
# evidence and exit protocol

def write_evidence(prop, level, coverage, assumptions, wall_s, violations=0, extra=None):
    ev = {"property_id": prop, "tier": TIER if TIER in ("quick", "thorough") else "quick", "seed": SEED, "level": level,
          "coverage": coverage, "assumptions": assumptions, "wall_s": round(wall_s, 2), "violations": violations,
          "repo_head": repo_head(), "generated_at": time.strftime("%Y-%m-%dT%H:%M:%SZ", time.gmtime())}
    if extra:
        ev.update(extra)
    if UNDECIDED_LOG:
        ev["undecided"] = list(UNDECIDED_LOG)
    evdir = os.environ.get("VERIF_EVIDENCE_DIR", os.path.join(VERIF, "evidence"))
    os.makedirs(evdir, exist_ok=True)
    path = os.path.join(evdir, prop + ".json")
    with open(path, "w") as f:
        json.dump(ev, f, indent=1, sort_keys=False)
    return path


def write_replay(prop, obligation, body):
    d = os.environ.get("VERIF_REPLAY_DIR", os.path.join(VERIF, "replays"))
    os.makedirs(d, exist_ok=True)
    path = os.path.join(d, "%s-%s-%d.txt" % (prop, re.sub(r"[^A-Za-z0-9_.-]+", "_", obligation)[:60], int(time.time())))
    with open(path, "w") as f:
        f.write("property: %s\nobligation: %s\nrepo: %s (%s)\n\n" % (prop, obligation, REPO, repo_head()))
        f.write(body)
    return path


def load_known_findings():
    out = []
    p = os.path.join(VERIF, "known_findings.txt")
    if os.path.exists(p):
        for ln in open(p):
            ln = ln.strip()
            if ln.startswith("finding:"):
                m = re.match(r"finding:\s*property=(\S+)\s+obligation=(\S+)\s+witness=(.*)$", ln)
                if m:
                    out.append({"property": m.group(1), "obligation": m.group(2), "witness": m.group(3).strip()})
    return out


UNDECIDED_LOG = []


def say(*a):
    if a and isinstance(a[0], str) and a[0].startswith("UNDECIDED"):
        UNDECIDED_LOG.append(" ".join(str(x) for x in a)[:600])
    print(*a, flush=True)


def settle(rc, decided):
    """exit protocol (DESIGN 9 as amended in 11.13): 1 = a violation was found; 0 = no violation in what was explored and at least one
    obligation of this property was decided in this run (parts that could not be decided on this tree - a unit whose annotations no longer
    fit, a harness that timed out - are printed as UNDECIDED lines and listed under `undecided` in the evidence, they are neither counted
    as held nor raised as an alarm); 2 = no violation and NOTHING could be decided (the check explored nothing)."""
    if rc == EXIT_UNDECIDED and decided > 0:
        say("NOTE %d part(s) undecided on this tree (listed above and in the evidence file), %d obligation(s) decided, none violated" % (len(UNDECIDED_LOG), decided))
        return EXIT_OK
    return rc
