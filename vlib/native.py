"""native replayers built from the snapshot (never decide a pass by themselves)"""
import os
import shutil
import subprocess

from . import common as C


def build_replayer(name, substitutions, extra_files=None):
    """copy replayers/<name> to scratch, instantiate src/main.rs.in, cargo build --release --offline"""
    src = os.path.join(C.VERIF, "replayers", name)
    dst = os.path.join(C.scratch(), "replay_" + name)
    if os.path.exists(dst):
        shutil.rmtree(dst)
    shutil.copytree(src, dst)
    tmpl = open(os.path.join(dst, "src", "main.rs.in")).read()
    for k, v in substitutions.items():
        tmpl = tmpl.replace("@%s@" % k, v)
    open(os.path.join(dst, "src", "main.rs"), "w").write(tmpl)
    lock = os.path.join(C.snapshot(), "Cargo.lock")
    if os.path.exists(lock) and not os.path.exists(os.path.join(dst, "Cargo.lock")):
        shutil.copy(lock, os.path.join(dst, "Cargo.lock"))
    env = dict(os.environ, CARGO_NET_OFFLINE="true", CARGO_TARGET_DIR=os.path.join(dst, "target"))
    p = subprocess.run(["cargo", "build", "--release", "--offline", "-q"], cwd=dst, capture_output=True, text=True, env=env)
    if p.returncode != 0:
        return None, p.stderr[-3000:]
    # binary name = package name
    import re
    pkg = re.search(r'name\s*=\s*"([^"]+)"', open(os.path.join(dst, "Cargo.toml")).read()).group(1)
    return os.path.join(dst, "target", "release", pkg), ""


def run(binary, args, timeout=600):
    try:
        p = subprocess.run([binary] + [str(a) for a in args], capture_output=True, text=True, timeout=timeout)
        return p.returncode, p.stdout, p.stderr
    except subprocess.TimeoutExpired as e:
        return 124, (e.stdout or b"").decode() if isinstance(e.stdout, bytes) else (e.stdout or ""), "timeout"
