"""C13 — built-in classes accept exactly the characters of their Rust predicates"""
import os
import re
import subprocess
import time

from vlib import common as C, verus_check as V, native, c13gen

PROP = "C13"

TRUSTED = [
    "Verus 0.2026.09.13 + Z3; rustc/cargo of the repository toolchain; the oracle list name -> Rust predicate in vlib/c13gen.py (taken from the README)",
    "'Rust predicate' = core / unicode-xid of the toolchain that builds the repository (char::UNICODE_VERSION is recorded)",
    "the native comparison and the enumeration are exhaustive runs over the finite domain of 1,112,064 scalar values; they are not verifier obligations and are reported under coverage.enumerated_exhaustively",
]


def cargo_run(dst, timeout):
    env = dict(os.environ, CARGO_NET_OFFLINE="true", CARGO_TARGET_DIR=os.path.join(dst, "target"))
    t0 = time.time()
    try:
        b = C.run_group(["cargo", "build", "--release", "--offline", "-q"], cwd=dst, env=env, timeout=timeout)
    except subprocess.TimeoutExpired:
        return {"built": False, "error": "build timeout", "build_s": timeout}
    if b.returncode != 0:
        return {"built": False, "error": b.stderr[-3000:], "build_s": round(time.time() - t0, 1)}
    pkg = re.search(r'name\s*=\s*"([^"]+)"', open(os.path.join(dst, "Cargo.toml")).read()).group(1)
    bs = round(time.time() - t0, 1)
    t1 = time.time()
    try:
        p = subprocess.run([os.path.join(dst, "target", "release", pkg)], capture_output=True, text=True, timeout=timeout)
    except subprocess.TimeoutExpired:
        return {"built": True, "error": "run timeout", "build_s": bs}
    return {"built": True, "rc": p.returncode, "out": p.stdout, "build_s": bs, "run_s": round(time.time() - t1, 1)}


def main():
    t0 = time.time()
    rc, violations, lines = C.EXIT_OK, 0, []
    # (1) generator contract and (4a) generated binary_search template: Verus
    units = [("char_range_gen", 14)]
    if os.path.exists(os.path.join(C.VERIF, "contracts", "verus", "binary_search_template.vt")):
        units.append(("binary_search_template", 2))
    results = V.run_units(units)
    summ = V.summarize(results)
    gen_ok = results[0]["status"] == "ok"
    for r in results:
        if r["status"] == "fail" and r["unit"] != "char_range_gen":
            ob = V.obligation_name(r)
            path = C.write_replay(PROP, ob, V.failure_text(r))
            lines.append("VIOLATION property=%s replay=%s obligation=%s no-failing-input-found" % (PROP, path, ob.replace(" ", "_")[:200]))
            violations += 1
        elif r["status"] == "undecided":
            C.say("UNDECIDED unit=%s reason=%s" % (r["unit"], r.get("reason", "")))
            if r["unit"] != "char_range_gen":
                rc = C.EXIT_UNDECIDED
    if not gen_ok:
        C.say("NOTE generator contract not established on this tree (see C18): the composition argument is unavailable, C13 is decided by the brute-force comparison alone")
    # (2)+(3) tables
    try:
        binary, err = native.build_replayer("c13_tables", c13gen.tables_substitutions())
    except Exception as e:
        binary, err = None, str(e)
    tables = {"built": binary is not None}
    if binary is None:
        C.say("UNDECIDED c13_tables does not build: %s" % err[-500:])
        rc = C.EXIT_UNDECIDED
    else:
        trc, out, _ = native.run(binary, [], timeout=1200)
        tables.update({"ok": re.findall(r"^TABLE (\S+) ok ranges=(\d+)", out, re.M), "mismatch": re.findall(r"^MISMATCH (.*)$", out, re.M),
                       "unicode_version": (re.search(r"^UNICODE_VERSION (\S+)", out, re.M) or [None, "?"])[1]})
        if trc == 124:
            C.say("UNDECIDED c13_tables timeout"); rc = C.EXIT_UNDECIDED
        for mm in tables["mismatch"]:
            path = C.write_replay(PROP, "table-equals-predicate " + mm.split()[0], "native comparison on the real builtin.rs / char_ranges.rs / get_builtin_regex of the snapshot:\n  %s\n" % mm)
            lines.append("VIOLATION property=%s replay=%s obligation=table-equals-predicate:%s" % (PROP, path, mm.split()[0]))
            violations += 1
        if trc == 0 and len(tables["ok"]) != 20:
            C.say("UNDECIDED vacuity guard: only %d tables compared" % len(tables["ok"])); rc = C.EXIT_UNDECIDED
    # (4c) macro-expanded lexers, every scalar value, three shapes
    dst = c13gen.build_lexers_crate()
    lex = cargo_run(dst, timeout=2400)
    lexinfo = {"built": lex.get("built"), "build_s": lex.get("build_s"), "run_s": lex.get("run_s")}
    if not lex.get("built") or "error" in lex:
        err = lex.get("error", "")
        # a definition that does not expand/compile is C12's business; here it leaves C13 undecided
        C.say("UNDECIDED c13_lexers: %s" % err[-800:])
        rc = C.EXIT_UNDECIDED
    else:
        out = lex["out"]
        lexinfo["ok"] = re.findall(r"^CLASS (\S+) ok scalars=(\d+)", out, re.M)
        lexinfo["mismatch"] = re.findall(r"^MISMATCH (.*)$", out, re.M)
        bad = re.findall(r"^CLASSBAD (\S+) differing=(\d+)", out, re.M)
        for (name, n) in bad:
            first = [m for m in lexinfo["mismatch"] if m.startswith(name + " ")]
            body = "macro-expanded lexers built from the snapshot, one-character inputs (plus '!' for the guard shape):\n  " + "\n  ".join(first) + "\n  (%s code points differ)\n" % n
            path = C.write_replay(PROP, "generated-membership-test " + name, body)
            lines.append("VIOLATION property=%s replay=%s obligation=generated-membership-test:%s" % (PROP, path, name))
            violations += 1
        if not bad and len(lexinfo["ok"]) != len(c13gen.ORACLE) + len(c13gen.COMBINED):
            C.say("UNDECIDED vacuity guard: %d classes enumerated" % len(lexinfo["ok"])); rc = C.EXIT_UNDECIDED
    if violations:
        rc = C.EXIT_VIOLATION
    n_scalars = 1112064
    cov = {
        "obligations": summ["obligations"], "discharged": summ["discharged"],
        "checker_cmd": "; ".join(r.get("cmd", "") for r in results) + " ; cargo run --release (c13_tables, c13_lexers generated in scratch from the snapshot)",
        "trusted_base": TRUSTED + summ["trusted_fragments"],
        "functions_under_contract": summ["functions_under_contract"],
        "backend": "Verus %s / Z3 for the generator contract%s; native exhaustive runs for the finite parts" % (results[0].get("verus_version", ""), " and the binary_search template" if len(units) > 1 else ""),
        "solver_time_ms": summ["smt_ms"], "samples": summ["samples"][:40], "extraction_rules": summ["extraction_rules"],
        "composition": "generate_char_fn_ranges(f) is canonical(f,.) [Verus, unit char_range_gen: %s]  o  real generator on the 20 README predicates == get_builtin_regex(name).get_ranges() "
                       "[native, %d/20 equal]  =>  every table is exactly {c | pred(c)} in canonical form; generated membership tests: see enumerated_exhaustively" % (results[0]["status"], len(tables.get("ok", []))),
        "enumerated_exhaustively": {
            "tables_vs_predicate_bruteforce": {"names": len(tables.get("ok", [])), "scalar_values_each": n_scalars, "mismatches": tables.get("mismatch", []),
                                               "unicode_version": tables.get("unicode_version")},
            "macro_expanded_lexers": {"classes": len(lexinfo.get("ok", [])), "shapes_per_class": 5, "scalar_values_each": n_scalars,
                                      "evaluations": len(lexinfo.get("ok", [])) * 5 * n_scalars, "mismatches": lexinfo.get("mismatch", [])[:20],
                                      "build_s": lexinfo.get("build_s"), "run_s": lexinfo.get("run_s"),
                                      "shapes": "arms: `$$c = 1` (one arm per range); guard: `($$c) '!' = 1` (|| chain for <= 9 ranges, binary-search table above); looped: `($$c)+ = 1` (same guard in a non-inlined state); ctx: `'a' > ($$c) = 1` (accepting ranges of a right-context automaton); ctx2: `'a' > (($$c) '!') = 1`",
                                      "combined_classes": [c[1] for c in c13gen.COMBINED]},
        },
        "exhaustive": True,
        "units": [{"unit": r["unit"], "status": r["status"], "verified": r.get("verified"), "wall_s": r.get("wall_s"), "reason": r.get("reason")} for r in results],
        "assumption_scan": summ["assumption_scan"],
    }
    assumptions = ["the lexers are exercised on one-character inputs (plus one terminator); longer contexts are C01/C02's business",
                   "obligations/discharged count only Verus obligations; the exhaustive native runs are listed separately and are complete for the finite domain"] + \
                  ["assumed/trusted item in generated Verus file: " + a for a in summ["assumption_scan"]]
    rc = C.settle(rc, summ["discharged"] + len(tables.get("ok", [])) + len(lexinfo.get("ok", [])))
    C.write_evidence(PROP, "proof", cov, assumptions, time.time() - t0, violations)
    for ln in lines:
        C.say(ln)
    C.say("%s: verus %d/%d, tables ok %d/20, classes enumerated %d, %.1fs, exit %d" % (PROP, summ["discharged"], summ["obligations"], len(tables.get("ok", [])), len(lexinfo.get("ok", [])), time.time() - t0, rc))
    return rc
