"""C10 — see DESIGN.md section 5: layer B (proved run-time contracts) + layer C (bounded step contracts on generated lexers)"""
from checks import prop_generic as G

PROP = "C10"


def main():
    return G.main(PROP, dict(verus_units=[("index_tables", 5)],
                             trusted=G.COMMON_TRUSTED + ["Verus unit index_tables (real SemanticActionTable::new/add, SemanticActionIdx::as_usize, RightCtxDFAs::new_right_ctx; rules R7 R8 R14 subst): the action payload, the "
                                                         "regex and the context automaton are opaque; the three statements that build a context's automaton are replaced by one trusted call (R7/R8)"],
                             assumptions=G.COMMON_ASSUMPTIONS + ["proved (unit index_tables): the index stored in a rule for its action (SemanticActionTable::add) is exactly the position at which THAT action is stored, and earlier actions are untouched - so the action the generated code calls for a rule is the one written in that rule"]))
