"""Properties decided by  (B) Kani function contracts / complete loop-free harnesses on lexgen_util  [proved]
                    +   (C) bounded step-contract harnesses on macro-expanded lexers of the corpus      [bounded]
                    (+ optional Verus units (A) registered per property)."""
import os
import re
import time

from vlib import sweep as SW, common as C, kani_run as K, layerc as LC, verus_check as V
from corpus import defs as D

TAG_RE = re.compile(r"\[((?:C\d\d ?)+)\]")


def tags_of(check_text):
    m = TAG_RE.search(check_text)
    if m:
        return m.group(1).split()
    # Kani's own checks (panic, overflow, bounds, unwinding assertion, unwrap on None ...): C09
    return ["C09"]


def run_layer_b(prop, spec):
    """contract harnesses run on a copy of lexgen_util carrying the contract attributes; plain harnesses on a copy without them
    (Kani checks a function's contract clauses in every harness that calls it, which would blur which assertion failed).
    -> (rows, report, cmd) rows: list of dict(name, kind, result, output, crate)"""
    import concurrent.futures as cf
    names = [h for h, (props, _) in spec.HARNESSES.items() if prop in props]
    if not names:
        return [], [], None
    contract_names = [h for h in names if spec.HARNESSES[h][1] == "contract"]
    plain_names = [h for h in names if spec.HARNESSES[h][1] != "contract"]
    dc = os.path.join(C.scratch(), "kani_lexgen_util_contracts")
    dp = os.path.join(C.scratch(), "kani_lexgen_util_plain")
    report = K.splice_lexgen_util(spec, dc, with_contracts=True)
    K.splice_lexgen_util(spec, dp, with_contracts=False)
    flags = ("-Z", "unstable-options", "--no-assertion-reach-checks")

    def go(args):
        d, hs = args
        return K.run_cargo_kani(d, hs, timeout=int(os.environ.get("VERIF_HARNESS_TIMEOUT", "2400")), extra_flags=flags) if hs else ({}, {}, "", 0)

    with cf.ThreadPoolExecutor(max_workers=2) as ex:
        (res_c, outs_c, cmd, _), (res_p, outs_p, cmd_p, _) = list(ex.map(go, [(dc, contract_names), (dp, plain_names)]))
    rows = []
    for h in names:
        is_c = h in contract_names
        res, outs, d = (res_c, outs_c, dc) if is_c else (res_p, outs_p, dp)
        r = res.get(h) or {"harness": h, "status": "undecided", "failed_checks": [], "time_s": None, "checks": None, "covers": None,
                           "raw_tail": outs.get("codegen", "")[-2500:], "wall_s": None}
        rows.append({"name": h, "kind": spec.HARNESSES[h][1], "result": r, "output": outs.get(h, ""), "crate": d})
    return rows, report, cmd or cmd_p


def playback_layer_b(row):
    """concrete playback of a failed plain harness: Kani writes the witness as a unit test into the scratch copy, which is then
    executed natively against the real lexgen_util functions (cargo kani playback)"""
    import subprocess
    env = dict(os.environ, CARGO_NET_OFFLINE="true", CARGO_TARGET_DIR=os.path.join(row["crate"], "target"))
    h = row["name"]
    try:
        subprocess.run(["cargo", "kani", "-Z", "function-contracts", "-Z", "stubbing", "-Z", "concrete-playback", "--concrete-playback=inplace",
                        "--output-format", "terse", "--harness", h], cwd=row["crate"], capture_output=True, text=True, env=env, timeout=1800)
        src = open(os.path.join(row["crate"], "src", "lib.rs")).read()
        # one unit test per failed check AND per satisfied cover: pick the ones generated for assertions
        tests, blocks = [], []
        for m in re.finditer(r"/// Check for `(\w+)`: ([^\n]*)\n", src):
            if m.group(1) == "cover":
                continue
            t0 = src.find("#[test]", m.end())
            t1 = src.find("\n    }\n", t0)
            nm = re.search(r"fn (kani_concrete_playback_\w+)\(\)", src[t0:t1])
            if t0 < 0 or t1 < 0 or not nm:
                continue
            tests.append(nm.group(1))
            blocks.append("// witness for: %s\n%s" % (m.group(2), src[t0:t1 + 6]))
        if not tests:
            return None
        p = subprocess.run(["cargo", "kani", "playback", "-Z", "concrete-playback", "--lib", "--", tests[0]], cwd=row["crate"], capture_output=True, text=True,
                           env=env, timeout=900)
        out = "\n".join(ln for ln in (p.stdout + p.stderr).split("\n") if re.match(r"^(test |thread |assertion|---- |failures|\s+left|\s+right|running|test result)", ln) or "panicked" in ln)
        return "witness (values of kani::any() in call order):\n%s\n\nnative run of the witness against the real functions (cargo kani playback):\n%s" % (blocks[0], out[-2500:])
    except Exception as e:  # noqa
        return None


def judge_layer_c(prop, crows):
    """turn layer C rows into (violation lines, notes, undecided, samples, n_ok)"""
    lines, notes, undecided, samples = [], [], [], []
    c_ok = 0
    violations = 0
    for row in crows:
        v = row["result"]
        d = row["def"]
        samples.append({"definition": d["name"], "N": row["N"], "m": row["m"], "unwind": row["unwind"], "status": v["status"], "kani_s": v["time_s"],
                        "checks": v["checks"], "covers_satisfied": v["covers"], "lexer": LC.G.lexer_text(d)})
        if v["status"] == "ok":
            c_ok += 1
            continue
        if v["status"] == "undecided":
            undecided.append("layer C %s: %s" % (d["name"], (v.get("raw_tail") or "")[-300:].replace("\n", " ")))
            continue
        # a failed assertion counts for this property if the property is in the assertion's tag list, or if the definition was written
        # for this property (name prefix): in a definition designed around `$`, a wrong token IS a C05 matter, etc.
        primary = d["name"].startswith(prop.lower() + "_")
        mine = [f for f in v["failed_checks"] if primary or prop in tags_of(f["check"])]
        other = [f for f in v["failed_checks"] if not (primary or prop in tags_of(f["check"]))]
        for f in other:
            notes.append("NOTE %s: failed check outside this property: %s" % (d["name"], f["check"][:160]))
        if not mine:
            continue
        wit = []
        try:
            wit = [] if os.environ.get("VERIF_NO_PLAYBACK") else LC.playback(row)
        except Exception as e:  # noqa
            notes.append("NOTE playback failed: %s" % e)
        mine_txt = set(f["check"].strip('"') for f in mine)
        w = next((w for w in wit if w["check"] in mine_txt), None) or (wit[0] if wit else None)
        ob = "%s::step [%s]" % (d["name"], "; ".join(sorted(mine_txt))[:300])
        body = ["bounded step-contract harness (Kani/CBMC) on the macro-expanded lexer of the snapshot", "definition %s, window N=%d, at most m=%d lexemes per call, unwind %d" % (d["name"], row["N"], row["m"], row["unwind"]),
                "", LC.G.lexer_text(d), "", "failed checks:"] + ["  " + f["check"] for f in v["failed_checks"]]
        suffix = ""
        if w is not None:
            chars = "".join(chr(x) if 0x20 <= x < 0x7f else "\\u{%x}" % x for x in w["a"][:w["n"]])
            body += ["", "counterexample from CBMC (concrete playback): remaining input %r, rule set index %d, done flag %d, base location %s" % (chars, w["rs0"], w["done0"], w["base"]),
                     "", "---- replay on the real code (harness crate built natively against the snapshot) ----", LC.native_replay(row, w)]
        else:
            suffix = " no-failing-input-found"
            body += ["", "no concrete playback available"]
        body += ["", "---- Kani output (tail) ----", row["output"][-3000:]]
        path = C.write_replay(prop, ob, "\n".join(body))
        lines.append("VIOLATION property=%s replay=%s obligation=%s%s" % (prop, path, re.sub(r"\s+", "_", ob)[:200], suffix))
        violations += 1
    return lines, notes, undecided, samples, c_ok


def main(prop, cfg):
    """cfg: dict(level_text..., verus_units=[(name,min)], layer_b=True/False, extra=callable or None, trusted=[...], assumptions=[...])"""
    t0 = time.time()
    lines, notes = [], []
    violations = 0
    undecided = []
    C.snapshot()
    # ---------------- layer A (optional Verus units)
    vres = V.run_units(cfg.get("verus_units", [])) if cfg.get("verus_units") else []
    vsum = V.summarize(vres) if vres else None
    for r in vres:
        if r["status"] == "fail":
            ob = V.obligation_name(r)
            path = C.write_replay(prop, ob, V.failure_text(r))
            lines.append("VIOLATION property=%s replay=%s obligation=%s no-failing-input-found" % (prop, path, ob.replace(" ", "_")[:200]))
            violations += 1
        elif r["status"] == "undecided":
            undecided.append("verus unit %s: %s" % (r["unit"], r.get("reason", "")))
    # ---------------- layer B and layer C run concurrently
    import concurrent.futures as cf
    brows, breport, bcmd = [], [], None
    defs = D.by_prop(prop, C.TIER) if cfg.get("layer_c", True) else []

    def do_b():
        if not cfg.get("layer_b", True):
            return [], [], None
        spec = K.load_spec("lexgen_util")
        return run_layer_b(prop, spec)

    def do_c():
        return LC.run_defs(defs, C.TIER, timeout=int(os.environ.get("VERIF_HARNESS_TIMEOUT", cfg.get("timeout", 2400)))) if defs else []

    with cf.ThreadPoolExecutor(max_workers=2) as ex:
        fb, fc = ex.submit(do_b), ex.submit(do_c)
        try:
            brows, breport, bcmd = fb.result()
        except K.SpliceError as e:
            undecided.append("layer B splice: %s" % e)
        crows = fc.result()
    contract_fail = [r for r in brows if r["kind"] == "contract" and r["result"]["status"] == "fail"]
    for r in brows:
        v = r["result"]
        if v["status"] == "undecided":
            undecided.append("kani harness %s: %s" % (r["name"], (v.get("raw_tail") or "")[-300:].replace("\n", " ")))
        elif v["status"] == "fail" and r["kind"] != "contract":
            ob = "lexgen_util::%s [%s]" % (r["name"], "; ".join(f["check"] for f in v["failed_checks"])[:300])
            pb = None if os.environ.get("VERIF_NO_PLAYBACK") else playback_layer_b(r)
            body = "Kani harness %s (fully symbolic lexer state, loop-free: complete) fails on the lexgen_util of the snapshot.\n\nfailed checks:\n%s\n\n%s\n\n---- Kani output (tail) ----\n%s" % (
                r["name"], "\n".join("  %s  (%s:%s)" % (f["check"], f.get("file", ""), f.get("line", "")) for f in v["failed_checks"]),
                pb or "no concrete playback available", r["output"][-3000:])
            path = C.write_replay(prop, ob, body)
            lines.append("VIOLATION property=%s replay=%s obligation=%s%s" % (prop, path, re.sub(r"\s+", "_", ob)[:200], "" if pb else " no-failing-input-found"))
            violations += 1
    # a failing full contract whose per-property conjunct harnesses all pass belongs to another property
    if contract_fail:
        own_fail = any(r["kind"] != "contract" and r["result"]["status"] == "fail" for r in brows)
        for r in contract_fail:
            if not own_fail:
                notes.append("NOTE contract harness %s fails on a conjunct that this property's own obligations do not include (%s)" % (
                    r["name"], "; ".join(f["check"] for f in r["result"]["failed_checks"])[:200]))
    # ---------------- layer C results
    l2, n2, u2, samples, c_ok = judge_layer_c(prop, crows)
    lines += l2; notes += n2; undecided += u2; violations += len(l2)
    # ---------------- native sweep of the same step contract (bounded stand-in by execution; seeded random definitions + this property's corpus)
    sweep_cov = {}
    if cfg.get("sweep", True) and cfg.get("layer_c", True):
        from corpus import random_defs as RD
        thorough = C.TIER == "thorough"
        n_rand = int(os.environ.get("VERIF_SWEEP_DEFS", "600" if thorough else "150"))
        maxlen = 6 if thorough else 5
        rdefs = [dict(d, sweep_maxlen=5) for d in RD.make(1000 + C.SEED, n_rand) if prop in d["props"]]  # random definitions: length <= 5 in both tiers (the thorough tier has four times as many)
        cdefs = [d for d in D.by_prop_all(prop) if d.get("form", "step") == "step" and not d.get("via")]
        try:
            srows = SW.run(cdefs + rdefs, prop.lower(), 6, 4, maxlen)
        except Exception as e:  # noqa
            srows = []
            undecided.append("native sweep: %s" % e)
        s_ok = s_cases = 0
        for row in srows:
            d = row["def"]
            if row["status"] == "ok":
                s_ok += 1
                s_cases += row["cases"]
                continue
            if row["status"] == "undecided":
                undecided.append("native sweep %s: %s" % (d["name"], row.get("reason", "")[-300:]))
                continue
            f = row["fail"]
            primary = d["name"].startswith(prop.lower() + "_")
            if not (primary or prop in tags_of(f["msg"])):
                notes.append("NOTE native sweep %s: failed check outside this property: %s" % (d["name"], f["msg"][:160]))
                continue
            chars = "".join(chr(x) if 0x20 <= x < 0x7f else "\\u{%x}" % x for x in f["a"][:f["n"]])
            ob = "sweep:%s::step [%s]" % (d["name"], f["msg"][:200])
            body = ["native sweep of the step contract on the macro-expanded lexer of the snapshot (crate built natively against the snapshot)",
                    "definition %s%s" % (d["name"], " (generated by corpus/random_defs.py, seed %d)" % (1000 + C.SEED) if d["name"].startswith("rnd_") else ""), "", LC.G.lexer_text(d), "",
                    "failing input: remaining input %r, rule set index %d, done flag %d, base location %s" % (chars, f["rs0"], f["done0"], f["base"]),
                    "failed assertion: " + f["msg"], "", "---- replay on the real code ----", SW.replay(row)]
            path = C.write_replay(prop, ob, "\n".join(body))
            lines.append("VIOLATION property=%s replay=%s obligation=%s" % (prop, path, re.sub(r"\s+", "_", ob)[:200]))
            violations += 1
        sweep_cov = {"native_sweep": {"definitions": len(srows), "passed": s_ok, "step_contract_evaluations": s_cases, "random_definitions": len(rdefs), "seed": 1000 + C.SEED,
                                      "bounds": "every string of length <= %d (random definitions: <= 5) over the definition's alphabet (its first five literal characters / range end points, one unrelated character, newline); every rule set; "
                                                "both values of the end-of-input flag; base location (3,5,17); calls handling more than 4 lexemes skipped" % maxlen,
                                      "kind": "bounded stand-in by execution of the real generated code against the generated reference (never counted as proved)"}}
        sweep_decided = s_ok
    else:
        sweep_decided = 0
    # ---------------- optional extra part
    extra_cov = {}
    if cfg.get("extra"):
        ex = cfg["extra"]()
        extra_cov = ex.get("coverage", {})
        for (ob, body, has_witness) in ex.get("violations", []):
            path = C.write_replay(prop, ob, body)
            lines.append("VIOLATION property=%s replay=%s obligation=%s%s" % (prop, path, re.sub(r"\s+", "_", ob)[:200], "" if has_witness else " no-failing-input-found"))
            violations += 1
        undecided += ex.get("undecided", [])
        notes += ex.get("notes", [])
    # ---------------- evidence
    proved = []
    for r in brows:
        v = r["result"]
        proved.append({"obligation": "lexgen_util::" + r["name"], "kind": "Kani function contract (proof_for_contract)" if r["kind"] == "contract" else "Kani harness, loop-free, fully symbolic state",
                       "backend": "kani 0.68 / cbmc 6.11 / cadical", "status": v["status"], "time_s": v["time_s"], "checks": v["checks"], "covers_satisfied": v["covers"]})
    if vsum:
        for smp in vsum["samples"]:
            proved.append({"obligation": "%s::%s" % (smp["unit"], smp["obligation"]), "kind": "Verus " + smp["mode"], "backend": "verus/z3", "status": "ok" if smp["discharged"] else "fail", "time_s": smp["ms"] / 1000.0})
    n_checks = sum((row["result"]["checks"] or 0) for row in crows) + sum((r["result"]["checks"] or 0) for r in brows)
    nontrivial = sum(1 for row in crows if row["result"]["status"] == "ok" and row["result"]["covers"] and row["result"]["covers"][0] >= 2) + \
        sum(1 for r in brows if r["result"]["status"] == "ok")
    cov = {
        "evaluations": max(n_checks, 1),
        "distinct_nontrivial": nontrivial,
        "rule": "evaluations = CBMC properties checked over all harnesses of this run; distinct_nontrivial = harnesses that verified AND whose reachability covers "
                "(token / error / stream end produced) were satisfied (layer C) plus verified layer-B harnesses",
        "samples": samples if samples else [{"obligation": p["obligation"], "status": p["status"]} for p in proved[:10]],
        "bounded_part": {"harnesses": len(crows), "verified": c_ok, "tier": C.TIER,
                         "bounds": "every character of the window ranges over all Unicode scalar values; window length N and lexemes-per-call m per definition (see samples); "
                                   "rule set, done flag and base location of the call-start state symbolic; unwinding assertions on",
                         "tool": "kani 0.68 / cbmc 6.11", "checker_cmd": crows[0]["cmd"] if crows else None},
        "proved_obligations": proved,
        "obligations": len(proved), "discharged": sum(1 for p in proved if p["status"] == "ok"),
        "checker_cmd": (bcmd or "") + (" ; " + crows[0]["cmd"] if crows else ""),
        "trusted_base": cfg.get("trusted", []) + (vsum["trusted_fragments"] if vsum else []),
        "functions_under_contract": breport + (vsum["functions_under_contract"] if vsum else []),
        "exhaustive": False,
    }
    # mechanical scan for assumption constructs in what Kani actually compiled
    scan = {}
    files = set()
    for row in crows:
        files.add(os.path.join(row["crate"], "src", "main.rs"))
    for r in brows:
        files.add(os.path.join(r["crate"], "src", "lib.rs"))
    for f in sorted(files):
        try:
            txt = open(f).read()
        except OSError:
            continue
        for pat in (r"kani::assume\(", r"kani::stub\(", r"kani::stub_verified\(", r"\bunsafe\b"):
            hits = [ln.strip()[:160] for ln in txt.split("\n") if re.search(pat, ln) and not ln.strip().startswith("//")]
            if hits:
                scan.setdefault(pat.replace("\\", ""), {"count": 0, "distinct_lines": []})
                scan[pat.replace("\\", "")]["count"] += len(hits)
                for h in hits:
                    if h not in scan[pat.replace("\\", "")]["distinct_lines"] and len(scan[pat.replace("\\", "")]["distinct_lines"]) < 12:
                        scan[pat.replace("\\", "")]["distinct_lines"].append(h)
    cov["assumption_scan"] = scan
    cov.update(extra_cov)
    cov.update(sweep_cov)
    rc = C.EXIT_OK
    if violations:
        rc = C.EXIT_VIOLATION
    elif undecided:
        rc = C.EXIT_UNDECIDED
    for n in notes:
        C.say(n)
    for u in undecided:
        C.say("UNDECIDED " + u)
    rc = C.settle(rc, c_ok + sweep_decided + sum(1 for r in brows if r["result"]["status"] == "ok") + (vsum["discharged"] if vsum else 0))
    C.write_evidence(prop, cfg.get("level", "model_checking"), cov, cfg.get("assumptions", []) + (["UNDECIDED: " + u for u in undecided]), time.time() - t0, violations)
    for ln in lines:
        C.say(ln)
    C.say("%s: layer B %d/%d harnesses ok, layer C %d/%d definitions ok%s%s, %.1fs, exit %d" % (
        prop, sum(1 for r in brows if r["result"]["status"] == "ok"), len(brows), c_ok, len(crows),
        (", verus %d/%d" % (vsum["discharged"], vsum["obligations"])) if vsum else "",
        (", native sweep %d/%d definitions (%d evaluations)" % (sweep_cov["native_sweep"]["passed"], sweep_cov["native_sweep"]["definitions"], sweep_cov["native_sweep"]["step_contract_evaluations"])) if sweep_cov else "",
        time.time() - t0, rc))
    return rc


COMMON_TRUSTED = [
    "Kani 0.68 / CBMC 6.11 / CaDiCaL; rustc of Kani's pinned toolchain compiles the harness crates (the macro itself runs as built by that toolchain)",
    "the reference step function generated by vlib/gen_corpus.py is this project's formalisation of the property text and of the README (DESIGN.md section 4)",
    "scratch copy of lexgen_util: contracts and one accessor (__verif_set_locs / __verif_last_match_is_none) are appended; no executable line of the real file is changed",
]
COMMON_ASSUMPTIONS = [
    "layer C is BOUNDED: definitions are sampled by the corpus; inputs are all strings of at most N scalar values (N per definition, 1..5); calls handling more than m lexemes are excluded by assumption; "
    "longer inputs and longer calls follow only by the (unchecked, on paper) induction over call-start states described in DESIGN.md section 3.4",
    "harnesses that do not check columns replace unicode_width::width by a cheap pure function (the argument is parametric in it); harnesses marked width=True use the real one",
    "machine arithmetic: location counters are assumed at least 64 below their maxima at the start of a call",
]
