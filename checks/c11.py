"""C11 — character-class algebra is exact at every code point (Verus on the real range_map.rs)"""
import os
import re
import time

from vlib import common as C, verus_check as V, native, layerc as LC
from corpus import defs as D
from checks import prop_generic as G

PROP = "C11"
UNITS = [("range_map_small", 9), ("range_map_insert", 14), ("range_map_insert_ranges", 15), ("range_map_remove_ranges", 17), ("regex_to_range_map", 8)]

TRUSTED = [
    "Verus 0.2026.09.13 + Z3 (bundled), rustc front end",
    "extraction rules R1 R8 R11 R12 R14 of vlib/transplant.py (syntactic; firings listed under coverage.extraction_rules)",
    "assumed specifications of std items: mem::take, cmp::max/min (through vstd cmp_spec), RangeInclusive::start/end, Vec::extend, "
    "derived Clone of Range<A> (start/end copied); vstd's own specifications of Vec, vec::IntoIter, slice::Iter",
    "RangeMap::map is not under contract (iterator-adapter chain with a pattern closure parameter; Verus rejects it)",
    "unit regex_to_range_map (real function of regex_to_nfa.rs): the RangeMap callees appear as external_body functions whose contracts RESTATE the ones proved in the "
    "range_map_* units (kept equal by hand); the meaning of class expressions is given by defining equations stated as axioms guarded by acyclic(bindings); "
    "termination is not proved (exec_allows_no_decreases_clause: a cyclic `let` recurses forever); get_builtin_regex and the table-to-Vec conversion are trusted (C13 decides the tables); "
    "axiom: a Vec<Range<A>> holds at most usize::MAX - 2 elements (std capacity guarantee for non-zero-sized elements)",
    "other callers of RangeMap (nfa.rs add_range_transition(s), nfa_to_dfa.rs) are not verified to establish the preconditions",
]


def replay_search(deep):
    rm = os.path.join(C.snapshot(), "crates/lexgen/src/range_map.rs")
    binary, err = native.build_replayer("range_map", {"RANGE_MAP_PATH": rm})
    if binary is None:
        return {"built": False, "error": err}
    args = (3, 2) if deep else (2, 2)
    rc, out, _ = native.run(binary, args, timeout=1500)
    w = re.search(r"^WITNESS (.*)$", out, re.M)
    n = re.search(r"^SEARCHED (\d+)$", out, re.M)
    return {"built": True, "witness": w.group(1) if w else None, "searched": int(n.group(1)) if n else 0, "bounds": "|A|<=%d inserts, |B|<=%d removed ranges, universes 0..6 and {0,1,D7FF,E000,10FFFE,10FFFF,u32::MAX}" % args,
            "timeout": rc == 124}


def main():
    t0 = time.time()
    import concurrent.futures as cf
    defs = D.by_prop(PROP, C.TIER)
    with cf.ThreadPoolExecutor(max_workers=2) as ex:
        fu = ex.submit(V.run_units, UNITS)
        fc = ex.submit(LC.run_defs, defs, C.TIER)
        results = fu.result()
        crows = fc.result()
    summ = V.summarize(results)
    c_lines, c_notes, c_und, c_samples, c_ok = G.judge_layer_c(PROP, crows)
    failed = [r for r in results if r["status"] == "fail"]
    undecided = [r for r in results if r["status"] == "undecided"]
    violations = 0
    rc = C.EXIT_OK
    lines = []
    replay_info = None
    if failed or undecided or C.TIER == "thorough":
        replay_info = replay_search(deep=(C.TIER == "thorough"))
    for r in failed:
        ob = V.obligation_name(r)
        body = V.failure_text(r)
        suffix = ""
        if replay_info and replay_info.get("witness"):
            body = "concrete witness found by the native replayer on the real range_map.rs of the snapshot:\n  %s\n(searched %d cases)\n\n%s" % (
                replay_info["witness"], replay_info["searched"], body)
        else:
            suffix = " no-failing-input-found"
            body = "native replayer: %s\n\n%s" % (replay_info, body)
        path = C.write_replay(PROP, ob, body)
        lines.append("VIOLATION property=%s replay=%s obligation=%s%s" % (PROP, path, ob.replace(" ", "_")[:200], suffix))
        violations += 1
        rc = C.EXIT_VIOLATION
    if not failed and replay_info and replay_info.get("witness"):
        # verifier accepted but the real code misbehaves on a concrete input: the trusted base is wrong
        path = C.write_replay(PROP, "native-cross-check", ("the verifier was undecided on this tree" if undecided else "all Verus obligations were discharged") + ", and the real code fails on a concrete input:\n  %s\n" % replay_info["witness"])
        lines.append("VIOLATION property=%s replay=%s obligation=native-cross-check" % (PROP, path))
        violations += 1
        rc = C.EXIT_VIOLATION
    for r in undecided:
        C.say("UNDECIDED unit=%s reason=%s" % (r["unit"], r.get("reason", "")))
        if rc == C.EXIT_OK:
            rc = C.EXIT_UNDECIDED
    # class expressions through the real macro: single-class lexers, one symbolic character over the whole scalar domain
    lines += c_lines
    violations += len(c_lines)
    if c_lines:
        rc = C.EXIT_VIOLATION
    for n in c_notes:
        C.say(n)
    for u in c_und:
        C.say("UNDECIDED " + u)
        if rc == C.EXIT_OK:
            rc = C.EXIT_UNDECIDED
    cov = {
        "class_expressions_through_the_macro": {"tool": "kani 0.68 / cbmc 6.11", "definitions": c_samples, "verified": c_ok,
            "note": "definitions with N=1 are loop-free up to the dispatch of one character and therefore complete for that definition (every scalar value); N>1 entries are bounded"},
        "obligations": summ["obligations"], "discharged": summ["discharged"],
        "checker_cmd": "per unit: " + "; ".join(r.get("cmd", "") for r in results) + "  (files generated from contracts/verus/*.vt + the snapshot of /repo)",
        "trusted_base": TRUSTED + summ["trusted_fragments"],
        "functions_under_contract": summ["functions_under_contract"],
        "backend": "Verus %s / Z3" % (results[0].get("verus_version", "") if results else ""),
        "solver_time_ms": summ["smt_ms"],
        "samples": summ["samples"],
        "extraction_rules": summ["extraction_rules"],
        "assumption_scan": summ["assumption_scan"],
        "units": [{"unit": r["unit"], "status": r["status"], "verified": r.get("verified"), "wall_s": r.get("wall_s"), "reason": r.get("reason")} for r in results],
        "contracts": {
            "insert": "requires wf(old), start<=end, len+2<=usize::MAX, merge total; ensures wf(final) && forall c. covers(final,c) <==> covers(old,c) || start<=c<=end; terminates",
            "insert_ranges": "requires wf(old), wf(iter.remaining()), lawful iterator; ensures wf(final) && coverage == union; terminates",
            "remove_ranges": "requires wf(old), wf(other); ensures wf(final) && forall c. covers(final,c) <==> covers(old,c) && !covers(other,c); terminates",
            "new/default/len/is_empty/iter/into_iter/from_non_overlapping_sorted_ranges/Range::contains": "exact functional postconditions over the closed view rs()",
            "regex_to_range_map": "requires acyclic(bindings) && is_class(bindings, re) (every panic! arm is proved unreachable); ensures wf(result) && forall c. covers(result, c) <==> denote(bindings, re, c) "
                                  "where denote is: character = itself; bracket set = union of its characters and inclusive ranges; `_` = every code point up to U+10FFFF; `|` = union; `#` = difference; variable = its binding; built-in = its table",
        },
        "vacuity_guards": "expected minimum number of verified functions per unit; proof fn witness_wf (wf satisfiable with 2 pieces, rejects inverted/adjacent-overlapping pieces)",
        "native_replayer": replay_info,
        "exhaustive": False,
    }
    assumptions = [
        "machine arithmetic: every + and - of the verified functions is proved free of overflow/underflow by Verus (not treated as mathematical)",
        "old_ranges.len() + 2 <= usize::MAX is a precondition of insert",
        "the proof covers range_map.rs only; that class expressions are compiled to these calls (regex_to_range_map) is covered by its own unit when listed under functions_under_contract",
    ] + ["assumed/trusted item in generated Verus file: " + a for a in summ["assumption_scan"]]
    rc = C.settle(rc, summ["discharged"] + c_ok + (1 if (replay_info or {}).get("searched") else 0))
    C.write_evidence(PROP, "proof", cov, assumptions, time.time() - t0, violations)
    for ln in lines:
        C.say(ln)
    C.say("%s: %d/%d obligations discharged, %d units, %.1fs, exit %d" % (PROP, summ["discharged"], summ["obligations"], len(results), time.time() - t0, rc))
    return rc
