"""C01 — see DESIGN.md section 5: layer B (proved run-time contracts) + layer C (bounded step contracts on generated lexers)"""
from checks import prop_generic as G

PROP = "C01"


def main():
    return G.main(PROP, dict(verus_units=[("update_backtracks", 30), ("nfa_to_dfa_targets", 11)],
                             trusted=G.COMMON_TRUSTED + [
                                 "Verus unit update_backtracks (real function, rules subst R5 R7 R16): preconditions wf_dfa (transition targets in range) and all_reachable are NOT verified at the caller "
                                 "(nfa_to_dfa / add_dfa build the DFA); three R7 fragments are trusted with assumed contracts: the initial work list (iterator chain), the loop over "
                                 "char_transitions.values() (vstd gives completeness but not soundness of values()), the by-value write-back loop; obeys_key_model for char and StateIdx keys (axioms)"],
                             assumptions=G.COMMON_ASSUMPTIONS + [
                                 "proved for nfa_to_dfa (unit nfa_to_dfa_targets, see C02): a character arm stands for the character, the ranges containing it and `_` together - the generated code tests "
                                 "character arms first, so a rule reachable only through a range or `_` would otherwise lose against a shorter character match",
                                 "proved for update_backtracks: termination (lexicographic measure), in-bounds indexing, its own assert_eq! cannot fire, everything but the flags unchanged, and the flags are closed "
                                 "under successors of flagged-or-accepting states (lemma_closed_implies_sound: every state reachable after an accepting state carries the flag)"]))
