"""C01 — see DESIGN.md section 5: layer B (proved run-time contracts) + layer C (bounded step contracts on generated lexers)"""
from checks import prop_generic as G

PROP = "C01"


def main():
    return G.main(PROP, dict(verus_units=[("update_backtracks", 30)],
                             trusted=G.COMMON_TRUSTED + [
                                 "Verus unit update_backtracks (real function, rules subst R5 R7 R16): preconditions wf_dfa (transition targets in range) and all_reachable are NOT verified at the caller "
                                 "(nfa_to_dfa / add_dfa build the DFA); three R7 fragments are trusted with assumed contracts: the initial work list (iterator chain), the loop over "
                                 "char_transitions.values() (vstd gives completeness but not soundness of values()), the by-value write-back loop; obeys_key_model for char and StateIdx keys (axioms)"],
                             assumptions=G.COMMON_ASSUMPTIONS + [
                                 "proved for update_backtracks: termination (lexicographic measure), in-bounds indexing, its own assert_eq! cannot fire, everything but the flags unchanged, and the flags are closed "
                                 "under successors of flagged-or-accepting states (lemma_closed_implies_sound: every state reachable after an accepting state carries the flag)"]))
