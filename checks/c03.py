"""C03 — see DESIGN.md section 5: layer B (proved run-time contracts) + layer C (bounded step contracts on generated lexers)"""
from checks import prop_generic as G

PROP = "C03"


def main():
    return G.main(PROP, dict(verus_units=[("renumber_state", 6), ("simplify_remap", 17)],
                             trusted=G.COMMON_TRUSTED + ["Verus unit renumber_state: assumed spec of [T]::binary_search; derive(Ord) on the one-field StateIdx orders by the field (axiom); "
                                                         "that CgCtx::new builds a strictly increasing inlined_states vector is an iterator chain and is NOT verified (precondition)",
                                                         "Verus unit simplify_remap (rule B1: three blocks of dfa/simplify.rs::simplify verified as function bodies under template-supplied headers): the loop "
                                                         "headers / the closure head themselves, the order-preserving iterator chains (into_state_indices = into_iter().enumerate(); "
                                                         "non_empty_states.into_iter().map().collect()) and the per-field mapping of the surviving states are NOT verified; assumed spec of "
                                                         "[T]::binary_search_by (with comparator totality); derive(Ord) on StateIdx (axiom)"],
                             assumptions=G.COMMON_ASSUMPTIONS + [
                                 "proved for dfa/simplify.rs (unit simplify_remap): a state is removed only if it has no transition of any kind and is not a rule-set entry state; the removed list stays sorted; "
                                 "every rule-set entry index and every transition target to a surviving state is renumbered to index - (removed states below it), which is proved to be the number of surviving "
                                 "states before it (lemma_renumbering_is_position, injective: lemma_renumbering_injective); a target that was removed becomes Accept with the removed state's list"]))
