"""C03 — see DESIGN.md section 5: layer B (proved run-time contracts) + layer C (bounded step contracts on generated lexers)"""
from checks import prop_generic as G

PROP = "C03"


def main():
    return G.main(PROP, dict(verus_units=[("renumber_state", 6), ("simplify_remap", 17), ("add_dfa", 3)],
                             trusted=G.COMMON_TRUSTED + ["Verus unit renumber_state: assumed spec of [T]::binary_search; derive(Ord) on the one-field StateIdx orders by the field (axiom); "
                                                         "that CgCtx::new builds a strictly increasing inlined_states vector is an iterator chain and is NOT verified (precondition)",
                                                         "Verus unit simplify_remap (rule B1: three blocks of dfa/simplify.rs::simplify verified as function bodies under template-supplied headers): the loop "
                                                         "headers / the closure head themselves, the order-preserving iterator chains (into_state_indices = into_iter().enumerate(); "
                                                         "non_empty_states.into_iter().map().collect()) and the per-field mapping of the surviving states are NOT verified; assumed spec of "
                                                         "[T]::binary_search_by (with comparator totality); derive(Ord) on StateIdx (axiom)",
                                                         "Verus unit add_dfa (real DFA::add_dfa, rules subst R7 R13 R14 R16): two R7 fragments trusted with assumed contracts (the by-value loop over the character map: "
                                                         "same keys, targets shifted; the iterator chain over the predecessor set: no contract), assumed contract of RangeMap::map (same end points, values mapped); "
                                                         "the precondition (targets of `other` lie inside `other`, no usize overflow) is not verified at the caller in lib.rs"],
                             assumptions=G.COMMON_ASSUMPTIONS + [
                                 "proved for dfa/simplify.rs (unit simplify_remap): a state is removed only if it has no transition of any kind and is not a rule-set entry state; the removed list stays sorted; "
                                 "every rule-set entry index and every transition target to a surviving state is renumbered to index - (removed states below it), which is proved to be the number of surviving "
                                 "states before it (lemma_renumbering_is_position, injective: lemma_renumbering_injective); a target that was removed becomes Accept with the removed state's list",
                                 "proved for DFA::add_dfa (how a further rule set is placed): the states of the extension are appended in order after the existing ones, which are unchanged; the index returned - the one "
                                 "lib.rs records as the rule set's entry - is exactly the position of the extension's state 0; every `_` / `$` / range / character target of the extension is moved up by exactly the old "
                                 "number of states; flags and accepting lists are kept"]))
