"""C03 — see DESIGN.md section 5: layer B (proved run-time contracts) + layer C (bounded step contracts on generated lexers)"""
from checks import prop_generic as G

PROP = "C03"


def main():
    return G.main(PROP, dict(verus_units=[("renumber_state", 6)],
                             trusted=G.COMMON_TRUSTED + ["Verus unit renumber_state: assumed spec of [T]::binary_search; derive(Ord) on the one-field StateIdx orders by the field (axiom); "
                                                         "that CgCtx::new builds a strictly increasing inlined_states vector is an iterator chain and is NOT verified (precondition)"],
                             assumptions=G.COMMON_ASSUMPTIONS))
