"""C15 — see DESIGN.md section 5: layer B (proved run-time contracts) + layer C (bounded harnesses on generated lexers)"""
from checks import prop_generic as G

PROP = "C15"


def main():
    return G.main(PROP, dict(trusted=G.COMMON_TRUSTED, assumptions=G.COMMON_ASSUMPTIONS))
