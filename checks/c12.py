"""C12 — macro expansion terminates and its output compiles (determinism clause: not addressed, see DESIGN.md section 7)"""
import os
import re
import shutil
import subprocess
import time

from vlib import common as C, verus_check as V, gen_corpus as G
from corpus import defs as D, c12_defs

PROP = "C12"
WATCHDOG = 120


def build_crate():
    root = os.path.join(C.scratch(), "c12_expand")
    if os.path.exists(root):
        shutil.rmtree(root)
    os.makedirs(os.path.join(root, "src", "bin"))
    snap = C.snapshot()
    open(os.path.join(root, "Cargo.toml"), "w").write('''[package]
name = "c12_expand"
version = "0.0.0"
edition = "2021"
[dependencies]
lexgen = { path = "%s/crates/lexgen" }
lexgen_util = { path = "%s/crates/lexgen_util" }
[workspace]
''' % (snap, snap))
    bins = {}
    pre = "#![allow(dead_code, unused, non_snake_case, clippy::all)]\nuse lexgen_util::Loc;\n"
    log = ("#[derive(Clone, Copy, Default)] pub struct Log { n: usize }\nimpl Log { pub fn log(&mut self, _r: u8, _s: Loc, _e: Loc, _p: Option<char>) { self.n += 1; } }\n")
    for d in D.DEFS:
        bins[d["name"]] = pre + log + G.lexer_text(d) + "\nfn main() { let _ = L::new(\"\").next(); }\n"
    for name, body in c12_defs.RAW.items():
        ctor = "L::new_with_state(\"\", 0)" if "L(u32)" in body else "L::new(\"\")"
        bins[name] = pre + "lexgen::lexer! {\n " + body + "\n}\nfn main() { let _ = %s.next(); }\n" % ctor
    for name, (body, _wd) in c12_defs.KNOWN_SLOW.items():
        bins[name] = pre + "lexgen::lexer! {\n " + body + "\n}\nfn main() { let _ = L::new(\"\").next(); }\n"
    for name, bodies in c12_defs.MULTI.items():
        bins[name] = pre + "\n".join("lexgen::lexer! {\n " + b + "\n}" for b in bodies) + "\nfn main() {}\n"
    for name, src in bins.items():
        open(os.path.join(root, "src", "bin", name + ".rs"), "w").write(src)
    lock = os.path.join(snap, "Cargo.lock")
    if os.path.exists(lock):
        shutil.copy(lock, os.path.join(root, "Cargo.lock"))
    return root, bins


EXPECT_TABLE = ["c02_table_shape", "c02_chars_vs_many_ranges", "c04_table_in_ctx"]


def main():
    t0 = time.time()
    violations, lines, undecided = 0, [], []
    # proved part: termination of the backtrack analysis (Verus), when the unit exists
    units = [("update_backtracks", 30), ("dfa_builders", 16), ("add_re", 14), ("search_table", 1)]
    vres = V.run_units(units) if units else []
    vsum = V.summarize(vres) if vres else None
    for r in vres:
        if r["status"] == "fail":
            ob = V.obligation_name(r)
            path = C.write_replay(PROP, ob, V.failure_text(r))
            lines.append("VIOLATION property=%s replay=%s obligation=%s no-failing-input-found" % (PROP, path, ob.replace(" ", "_")[:200]))
            violations += 1
        elif r["status"] == "undecided":
            undecided.append("verus unit %s: %s" % (r["unit"], r.get("reason", "")))
    root, bins = build_crate()
    env = dict(os.environ, CARGO_NET_OFFLINE="true", CARGO_TARGET_DIR=os.path.join(root, "target"))
    # dependencies (syn, quote, the macro itself) once
    names = sorted(bins)
    first = C.run_group(["cargo", "build", "--offline", "-q", "--bin", names[0]], cwd=root, env=env, timeout=1200)
    results = []
    import concurrent.futures as cf

    def one(name):
        t1 = time.time()
        try:
            wd = c12_defs.KNOWN_SLOW[name][1] if name in c12_defs.KNOWN_SLOW else WATCHDOG
            p = C.run_group(["cargo", "rustc", "--offline", "-q", "--bin", name, "--", "-Awarnings"], cwd=root, env=env, timeout=wd)
            return name, p.returncode, p.stderr[-3000:], time.time() - t1
        except subprocess.TimeoutExpired:
            return name, 124, "expansion/compilation did not finish within %d s" % wd, time.time() - t1

    # cargo serialises on the build directory lock; the per-binary time is measured from the moment rustc could start, so run sequentially
    for name in names:
        results.append(one(name))
    # determinism clause, by execution: selected definitions are expanded twice in separate compiler processes and the texts compared
    det = []
    DET_BINS = ["c12_builtins", "c12_two_lexers_tables", "c12_rule_sets", "c12_ctx_shapes", "c12_ctx_big_class", "c12_many_rules", "c03_three_sets", "c10_kinds_all"]

    def expand_once(name):
        e = dict(env, RUSTC_BOOTSTRAP="1")
        try:
            p = C.run_group(["cargo", "rustc", "--offline", "-q", "--bin", name, "--", "-Awarnings", "-Zunpretty=expanded"], cwd=root, env=e, timeout=WATCHDOG)
            return p.stdout if p.returncode == 0 else None
        except subprocess.TimeoutExpired:
            return None

    for name in DET_BINS:
        if name not in bins:
            continue
        a, b = expand_once(name), expand_once(name)
        if a is None or b is None:
            det.append({"definition": name, "status": "not expanded"})
            continue
        if a != b:
            import difflib
            diff = "\n".join(list(difflib.unified_diff(a.split("\n"), b.split("\n"), "expansion 1", "expansion 2", lineterm="", n=1))[:60])
            path = C.write_replay(PROP, "expansion-deterministic " + name, "definition %s: two expansions of the same definition differ\n\n---- definition ----\n%s\n\n---- diff of the two expansions (head) ----\n%s\n" % (name, bins[name], diff))
            lines.append("VIOLATION property=%s replay=%s obligation=expansion-deterministic:%s" % (PROP, path, name))
            violations += 1
            det.append({"definition": name, "status": "differs"})
        else:
            det.append({"definition": name, "status": "identical", "bytes": len(a)})
    # coverage guard for the layer C corpus: definitions written to exercise the search-table path must still be table-driven
    # (a definition that silently stopped producing a table would leave C09/C13's table obligations vacuous); note only, never an alarm
    shape = []
    import re as _re
    for name in EXPECT_TABLE:
        if name not in bins:
            continue
        t = expand_once(name)
        n_tab = len(_re.findall(r"static \w*RANGE_TABLE_\d+", t)) if t else None
        shape.append({"definition": name, "range_tables": n_tab})
        if n_tab == 0:
            C.say("NOTE corpus definition %s is meant to be table-driven but its expansion contains no range table on this tree" % name)
    samples = []
    known = C.load_known_findings()
    known_hit = []
    for (name, rc, err, dt) in results:
        samples.append({"definition": name, "status": "ok" if rc == 0 else ("timeout" if rc == 124 else "error"), "seconds": round(dt, 1)})
        if rc == 0:
            continue
        if rc != 124 and ("could not find `Cargo.toml`" in err or "failed to load" in err):
            undecided.append("cargo trouble on %s: %s" % (name, err[-300:]))
            continue
        kf = [f for f in known if f["property"] == PROP and f["obligation"] == "expand-and-compile:" + name]
        if kf and rc == 124:
            C.say("KNOWN-FINDING: property=%s %s" % (PROP, kf[0]["witness"]))
            known_hit.append(name)
            continue
        kind = "expansion does not terminate within the watchdog" if rc == 124 else ("macro panicked" if "proc macro panicked" in err else "generated code does not compile")
        body = "definition %s: %s\n\n---- definition ----\n%s\n\n---- cargo / rustc output ----\n%s\n" % (name, kind, bins[name], err)
        path = C.write_replay(PROP, "expand-and-compile " + name, body)
        lines.append("VIOLATION property=%s replay=%s obligation=expand-and-compile:%s[%s]" % (PROP, path, name, kind.replace(" ", "_")))
        violations += 1
    slow = [s for s in samples if s["status"] == "ok" and s["seconds"] > 30]
    ok = sum(1 for s in samples if s["status"] == "ok")
    for name in c12_defs.KNOWN_SLOW:
        if any(s["definition"] == name and s["status"] == "ok" for s in samples):
            C.say("NOTE the known finding on %s is no longer reproduced (it expanded and compiled within its watchdog)" % name)
    proved = [{"obligation": "%s::%s" % (x["unit"], x["obligation"]), "backend": "verus/z3", "status": "ok" if x["discharged"] else "fail"} for x in (vsum["samples"] if vsum else [])]
    cov = {"evaluations": len(samples), "distinct_nontrivial": ok,
           "rule": "every corpus definition (layer C corpus + corpus/c12_defs.py) is expanded by the real macro of the snapshot and compiled by rustc, each as its own binary under a %d s watchdog; "
                   "non-trivial = expands and compiles" % WATCHDOG,
           "samples": samples, "slow_definitions_over_30s": slow, "known_findings_reproduced": known_hit, "determinism_by_double_expansion": det, "table_driven_definitions": shape,
           "proved_obligations": proved, "obligations": len(proved), "discharged": sum(1 for p in proved if p["status"] == "ok"),
           "checker_cmd": "cargo rustc --offline --bin <definition> (crate generated in scratch against the snapshot)" + ("; " + "; ".join(r.get("cmd", "") for r in vres) if vres else ""),
           "trusted_base": ["rustc/cargo of the repository toolchain", "the corpus samples the `programs` quantifier"] + (vsum["trusted_fragments"] if vsum else []),
           "functions_under_contract": vsum["functions_under_contract"] if vsum else [],
           "exhaustive": False}
    assumptions = ["bounded stand-in: a finite corpus of definitions, each expanded and compiled once; 'expanding twice gives the same code' is a two-run property that no contract expresses - it is sampled by expanding eight "
                   "definitions twice in separate compiler processes and comparing the texts (execution, not proof)",
                   "termination of update_backtracks for every DFA is the proved part when the Verus unit update_backtracks is listed under proved_obligations",
                   "proved for the DFA builder API (unit dfa_builders): under their stated preconditions the builders' own assert!s cannot fire, indexing is in bounds, and wf_dfa (every transition target is a "
                   "state) is preserved by every builder; the preconditions themselves are not verified at the call sites in nfa_to_dfa / add_dfa",
                   "proved for the NFA construction (unit add_re: real regex_to_nfa::add_re, NFA::add_regex, new_state, add_empty/any/end_of_input_transition, make_state_accepting): for EVERY regex "
                   "whose variables are bound, whose built-ins are known and whose `#` operands are classes, no assert! of the construction fires and every index is in bounds (each arm adds transitions "
                   "only out of `current` and of fresh states; `current` has no outgoing transition when an arm starts), and the states of earlier rules keep their transitions.  ASSUMED: the contracts of "
                   "add_char_transition / add_range_transition(s) (entry-API and closure code), the string-literal arm (trusted helper with add_re's contract), Option::replace, termination of the recursion "
                   "(exec_allows_no_decreases_clause: bindings are acyclic by construction, which is not proved)",
                   "proved for codegen/search_table.rs (unit search_table, real SearchTableSet::add_table): the same table is never emitted twice (it keeps its name) and a new table gets `<Lexer>_RANGE_TABLE_<n>` with a number "
                   "no other table of the lexer has - so the generated statics cannot collide within a lexer (between lexers the lexer name differs).  ASSUMED: the identifier construction (format! + syn::Ident::new, "
                   "outlined) yields a name determined by (lexer name, number); names with different numbers differ; obeys_key_model for Vec<(char, char)>"] + ["UNDECIDED: " + u for u in undecided]
    rc = C.EXIT_VIOLATION if violations else (C.EXIT_UNDECIDED if undecided else C.EXIT_OK)
    for u in undecided:
        C.say("UNDECIDED " + u)
    rc = C.settle(rc, ok + (vsum["discharged"] if vsum else 0))
    C.write_evidence(PROP, "model_checking" if False else "other", dict(cov, explanation="bounded stand-in by execution of the real macro on a corpus under a watchdog, plus a Verus termination proof of the backtrack analysis when listed"), assumptions, time.time() - t0, violations)
    for ln in lines:
        C.say(ln)
    C.say("%s: %d/%d definitions expand and compile, %.1fs, exit %d" % (PROP, ok, len(samples), time.time() - t0, rc))
    return rc
