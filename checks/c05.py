"""C05 — see DESIGN.md section 5: layer B (proved run-time contracts) + layer C (bounded step contracts on generated lexers)"""
from checks import prop_generic as G

PROP = "C05"


def main():
    return G.main(PROP, dict(verus_units=[("dfa_builders", 16), ("add_dfa", 3)],
                             trusted=G.COMMON_TRUSTED + [
                                 "Verus unit dfa_builders (real functions of dfa.rs, rules subst R14 R16 R19): obeys_key_model for char and StateIdx keys (axioms); the builders' preconditions "
                                 "(indices below the number of states, slot still empty) are NOT verified at their callers in nfa_to_dfa / add_dfa",
                                 "Verus unit add_dfa (see C03): two trusted R7 fragments, assumed contract of RangeMap::map"],
                             assumptions=G.COMMON_ASSUMPTIONS + [
                                 "proved for dfa.rs: State::has_no_transitions is true exactly when a state has no character, range, `_` AND no end-of-input transition (so a state that can still go on through `$` is "
                                 "never classified as transition-less by simplify); set_end_of_input_transition / set_any_transition / add_char_transition / set_range_transitions store exactly the given "
                                 "target in exactly the given slot and leave every other state and slot unchanged (whole-view postconditions)",
                                 "proved for DFA::add_dfa: the `$` (and `_`, range, character) target of every state of a further rule set is moved up by exactly the number of states that were there before - "
                                 "so `$` in a later rule set leads to that rule set's own state"]))
