"""C02 — see DESIGN.md section 5: layer B (proved run-time contracts) + layer C (bounded step contracts on generated lexers)"""
from checks import prop_generic as G

PROP = "C02"


def main():
    return G.main(PROP, dict(verus_units=[("compute_state_closure", 17), ("nfa_to_dfa_targets", 11), ("dfa_state_of", 2)],
                             trusted=G.COMMON_TRUSTED + [
                                 "Verus unit compute_state_closure (real NFA::compute_state_closure and next_empty_states, rules subst R7 R10 R14 R16): assumed specs of <&HashSet as IntoIterator>::into_iter "
                                 "(length, no duplicates, completeness; soundness is PROVED from these by a pigeonhole lemma) and of HashSet::clone; obeys_key_model::<StateIdx>() (axiom); "
                                 "the initial work list `states.iter().copied().collect()` is a trusted R7 fragment; precondition wf_nfa (empty-transition targets in range) is not verified at the callers",
                                 "Verus unit nfa_to_dfa_targets (rule B1 with `upto`: two blocks of nfa_to_dfa verified as function bodies under template-supplied headers, cut before the closure computation): "
                                 "the loop headers, the collection of the per-state transition maps before these blocks, and everything after the cut (closure, state map, DFA builder calls) are NOT verified; "
                                 "same assumed into_iter specification and key-model axiom as above"],
                             assumptions=G.COMMON_ASSUMPTIONS + [
                                 "proved for compute_state_closure: the result contains the given states, is closed under empty transitions, every member is reachable from the given states by empty transitions "
                                 "(so it is exactly the epsilon-closure), all members are states of the automaton, and the work-list loop terminates",
                                 "proved for nfa_to_dfa (unit nfa_to_dfa_targets): the target set of a character transition of the subset construction is EXACTLY its own targets plus the targets of every range "
                                 "transition containing the character plus the `_` targets; the target set of a range transition is EXACTLY its own targets plus the `_` targets",
                                 "proved for nfa_to_dfa::dfa_state_of_nfa_states (real text, unit dfa_state_of): a set of NFA states seen before gets the DFA state it got before and nothing changes; a new set gets a NEW "
                                 "DFA state and is recorded; every recorded DFA state exists and two different sets never share one (the BTreeSet key is used opaquely; obeys_key_model for it is an axiom; "
                                 "DFA::new_state by its contract from unit dfa_builders)"]))
