"""C18 — the table generator emits exact, maximal, sorted ranges for any predicate (Verus on the real generator)"""
import os
import re
import time

from vlib import common as C, verus_check as V, native, rustscan as rs, transplant as tp

PROP = "C18"
UNITS = [("char_range_gen", 14)]
GEN = "crates/char_range_gen/src/main.rs"

TRUSTED = [
    "Verus 0.2026.09.13 + Z3 (bundled), rustc front end",
    "extraction rules R3 (fn pointer -> impl Fn), R6 (char::MAX literal), R4 (for-with-continue -> while; cross-checked by execution on every run), R14 (named result)",
    "assumed specifications: <char as TryFrom<u32>>::try_from (Ok(i as char) iff i is a scalar value), <u32 as From<char>>::from; vstd's Vec::push, Option::take",
    "the predicate f is assumed total and functional (requires total_fun(f)): a predicate with side effects or panics is outside the contract",
]


def replay(deep):
    src = open(os.path.join(C.snapshot(), GEN)).read()
    item = rs.find_item(src, "fn", "generate_char_fn_ranges")
    real = item.text
    rew = real
    for r, a in (("R3", ""), ("R6", ""), ("R4", "")):
        try:
            rew, _, _ = tp.RULES[r](rew, a)
        except tp.TransplantError:
            rew = real      # the construct is gone on this tree: the oracle comparison below still runs on the original text
            break
    # the whole generator file becomes a module (so that items the function refers to - constants, helpers - are present); only `pub` is added
    def as_module(fn_text):
        whole = src[:item.toks[item.first].start] + "pub " + fn_text + src[item.toks[item.last].end:]
        return whole.replace("fn main()", "pub fn __gen_main()")
    binary, err = native.build_replayer("char_range_gen", {"GEN_FN": as_module(real), "GEN_FN_REWRITTEN": as_module(rew)})
    if binary is None:
        return {"built": False, "error": err}
    rc, out, _ = native.run(binary, [4 if deep else 3], timeout=1500)
    w = re.search(r"^WITNESS (.*)$", out, re.M)
    mm = re.search(r"^R4-MISMATCH (.*)$", out, re.M)
    n = re.search(r"^SEARCHED (\d+)$", out, re.M)
    return {"built": True, "witness": w.group(1) if w else None, "r4_mismatch": mm.group(1) if mm else None,
            "searched": int(n.group(1)) if n else 0,
            "bounds": "predicates with <= %d flips at {0,1,61,7B,D7FF,E000,E001,10FFFE,10FFFF}, both polarities" % (4 if deep else 3)}


def main():
    t0 = time.time()
    results = V.run_units(UNITS)
    summ = V.summarize(results)
    failed = [r for r in results if r["status"] == "fail"]
    undecided = [r for r in results if r["status"] == "undecided"]
    rc, violations, lines = C.EXIT_OK, 0, []
    try:
        info = replay(deep=(C.TIER == "thorough"))
    except (rs.ScanError, tp.TransplantError) as e:
        info = {"built": False, "error": str(e)}
    if info.get("r4_mismatch"):
        C.say("UNDECIDED rule R4 rewrote the loop into something that behaves differently: %s" % info["r4_mismatch"])
        rc = C.EXIT_UNDECIDED
    for r in failed:
        ob = V.obligation_name(r)
        body = V.failure_text(r)
        suffix = ""
        if info.get("witness"):
            body = "concrete witness found by the native replayer on the real generate_char_fn_ranges of the snapshot:\n  %s\n\n%s" % (info["witness"], body)
        else:
            suffix = " no-failing-input-found"
            body = "native replayer: %s\n\n%s" % (info, body)
        path = C.write_replay(PROP, ob, body)
        lines.append("VIOLATION property=%s replay=%s obligation=%s%s" % (PROP, path, ob.replace(" ", "_")[:200], suffix))
        violations += 1
        rc = C.EXIT_VIOLATION
    if not failed and info.get("witness"):
        path = C.write_replay(PROP, "native-cross-check", ("the verifier was undecided on this tree" if undecided else "all Verus obligations were discharged") + ", and the real generator fails on a concrete input:\n  %s\n" % info["witness"])
        lines.append("VIOLATION property=%s replay=%s obligation=native-cross-check" % (PROP, path))
        violations += 1
        rc = C.EXIT_VIOLATION
    for r in undecided:
        C.say("UNDECIDED unit=%s reason=%s" % (r["unit"], r.get("reason", "")))
        if rc == C.EXIT_OK:
            rc = C.EXIT_UNDECIDED
    cov = {
        "obligations": summ["obligations"], "discharged": summ["discharged"],
        "checker_cmd": "; ".join(r.get("cmd", "") for r in results) + "  (file generated from contracts/verus/char_range_gen.vt + the snapshot of /repo)",
        "trusted_base": TRUSTED + summ["trusted_fragments"],
        "functions_under_contract": summ["functions_under_contract"],
        "backend": "Verus %s / Z3" % (results[0].get("verus_version", "") if results else ""),
        "solver_time_ms": summ["smt_ms"], "samples": summ["samples"], "extraction_rules": summ["extraction_rules"],
        "assumption_scan": summ["assumption_scan"],
        "units": [{"unit": r["unit"], "status": r["status"], "verified": r.get("verified"), "wall_s": r.get("wall_s"), "reason": r.get("reason")} for r in results],
        "contracts": {"generate_char_fn_ranges": "requires f total and functional; ensures canonical(f, result): every end point is a scalar value with lo<=hi; every char inside "
                      "a range satisfies f; every char satisfying f is inside a range; consecutive ranges are separated by at least one scalar value (sorted, disjoint, "
                      "non-adjacent across the surrogate gap); the scalar value following each range does not satisfy f (maximal). Loop termination by a decreases clause."},
        "r4_cross_check_and_native_replayer": info,
        "exhaustive": False,
    }
    assumptions = ["machine arithmetic checked by Verus (no overflow in the generator)",
                   "canonical(f, .) is this project's formalisation of 'the unique sorted list of maximal inclusive ranges with scalar end points'"] + \
                  ["assumed/trusted item in generated Verus file: " + a for a in summ["assumption_scan"]]
    rc = C.settle(rc, summ["discharged"] + (1 if info.get("searched") else 0))
    C.write_evidence(PROP, "proof", cov, assumptions, time.time() - t0, violations)
    for ln in lines:
        C.say(ln)
    C.say("%s: %d/%d obligations discharged, replayer %s, %.1fs, exit %d" % (PROP, summ["discharged"], summ["obligations"], {k: info.get(k) for k in ("searched", "witness", "r4_mismatch", "error")}, time.time() - t0, rc))
    return rc
